"""Parser for rustc's `-Zunpretty=mir` text (the subset emitted for star-sharks' derived
field code).  Produces Item objects: name, params, return type, locals, basic blocks."""
import re


class Item:
    def __init__(self, kind, name, sig, params, ret):
        self.kind = kind  # 'fn' | 'const'
        self.name = name
        self.sig = sig
        self.params = params  # [(local, type)]
        self.ret = ret
        self.locals = {}  # local -> type
        self.blocks = {}  # label -> (stmts, terminator)
        self.order = []
        self.simple_const = None  # for `const X: T = const V;`


RE_FN = re.compile(r"^fn (.*?)\((.*)\) -> (.*) \{$")
RE_CONST_BLOCK = re.compile(r"^const (.*): (.*?) = \{$")
RE_CONST_SIMPLE = re.compile(r"^const (.*): (.*?) = const (.*);$")
RE_LET = re.compile(r"^\s*let (?:mut )?(_\d+): (.*);$")
RE_BB = re.compile(r"^\s*(bb\d+)(?: \(cleanup\))?: \{$")


def split_params(s):
    out, depth, cur = [], 0, ""
    for ch in s:
        if ch in "<([":
            depth += 1
        elif ch in ">)]":
            depth -= 1
        if ch == "," and depth == 0:
            out.append(cur.strip())
            cur = ""
        else:
            cur += ch
    if cur.strip():
        out.append(cur.strip())
    return out


def parse(text):
    items = []
    lines = text.splitlines()
    i = 0
    n = len(lines)
    while i < n:
        line = lines[i]
        m = RE_CONST_SIMPLE.match(line)
        if m:
            it = Item("const", m.group(1), line, [], m.group(2))
            it.simple_const = m.group(3)
            items.append(it)
            i += 1
            continue
        m = RE_FN.match(line)
        mc = RE_CONST_BLOCK.match(line) if not m else None
        if m or mc:
            if m:
                params = []
                for p in split_params(m.group(2)):
                    pm = re.match(r"^(_\d+): (.*)$", p)
                    if pm:
                        params.append((pm.group(1), pm.group(2)))
                it = Item("fn", m.group(1), line, params, m.group(3))
            else:
                it = Item("const", mc.group(1), line, [], mc.group(2))
            for l, t in it.params:
                it.locals[l] = t
            i += 1
            cur = None
            depth = 1
            while i < n:
                l = lines[i]
                if l == "}":
                    break
                ml = RE_LET.match(l)
                mb = RE_BB.match(l)
                if ml and cur is None:
                    it.locals[ml.group(1)] = ml.group(2)
                elif mb:
                    cur = mb.group(1)
                    it.blocks[cur] = []
                    it.order.append(cur)
                elif cur is not None:
                    s = l.strip()
                    if s == "}":
                        cur = None
                    elif s:
                        it.blocks[cur].append(s)
                i += 1
            # split statements / terminator
            for b in it.order:
                body = it.blocks[b]
                it.blocks[b] = (body[:-1], body[-1] if body else "return;")
            items.append(it)
        i += 1
    return items


def index(items):
    d = {}
    for it in items:
        d.setdefault(it.name, []).append(it)
    return d
