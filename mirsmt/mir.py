"""Parser for rustc's `-Zunpretty=mir` text (the subset emitted for star-sharks' derived
field code).  Produces Item objects: name, params, return type, locals, basic blocks."""
import re


class Item:
    def __init__(self, kind, name, sig, params, ret):
        self.kind = kind  # 'fn' | 'const'
        self.name = name
        self.sig = sig
        self.params = params  # [(local, type)]
        self.ret = ret
        self.locals = {}  # local -> type
        self.blocks = {}  # label -> (stmts, terminator)
        self.order = []
        self.simple_const = None  # for `const X: T = const V;`


RE_FN = re.compile(r"^fn (.*?)\((.*)\) -> (.*) \{$")
RE_CONST_BLOCK = re.compile(r"^const (.*): (.*?) = \{$")
RE_CONST_SIMPLE = re.compile(r"^const (.*): (.*?) = const (.*);$")
RE_LET = re.compile(r"^\s*let (?:mut )?(_\d+): (.*);$")
RE_BB = re.compile(r"^\s*(bb\d+)(?: \(cleanup\))?: \{$")


def split_params(s):
    out, depth, cur = [], 0, ""
    for ch in s:
        if ch in "<([":
            depth += 1
        elif ch in ">)]":
            depth -= 1
        if ch == "," and depth == 0:
            out.append(cur.strip())
            cur = ""
        else:
            cur += ch
    if cur.strip():
        out.append(cur.strip())
    return out


def parse(text):
    items = []
    lines = text.splitlines()
    i = 0
    n = len(lines)
    while i < n:
        line = lines[i]
        m = RE_CONST_SIMPLE.match(line)
        if m:
            it = Item("const", m.group(1), line, [], m.group(2))
            it.simple_const = m.group(3)
            items.append(it)
            i += 1
            continue
        m = RE_FN.match(line)
        mc = RE_CONST_BLOCK.match(line) if not m else None
        if m or mc:
            if m:
                params = []
                for p in split_params(m.group(2)):
                    pm = re.match(r"^(_\d+): (.*)$", p)
                    if pm:
                        params.append((pm.group(1), pm.group(2)))
                it = Item("fn", m.group(1), line, params, m.group(3))
            else:
                it = Item("const", mc.group(1), line, [], mc.group(2))
            for l, t in it.params:
                it.locals[l] = t
            i += 1
            cur = None
            depth = 1
            while i < n:
                l = lines[i]
                if l == "}":
                    break
                ml = RE_LET.match(l)
                mb = RE_BB.match(l)
                if ml and cur is None:
                    it.locals[ml.group(1)] = ml.group(2)
                elif mb:
                    cur = mb.group(1)
                    it.blocks[cur] = []
                    it.order.append(cur)
                elif cur is not None:
                    s = l.strip()
                    if s == "}":
                        cur = None
                    elif s:
                        it.blocks[cur].append(s)
                i += 1
            # split statements / terminator
            for b in it.order:
                body = it.blocks[b]
                it.blocks[b] = (body[:-1], body[-1] if body else "return;")
            items.append(it)
        i += 1
    return disambiguate(items)


def disambiguate(items):
    """rustc prints same-named constants of repeated macro expansions (e.g. two `bits![..]`
    in one function) under identical paths.  Definitions appear group by group, uses appear
    in the same order: the k-th definition of a name and the k-th textual use of it inside a
    function (or every use inside a const item of group k) are renamed `NAME#k`."""
    import collections
    tail = lambda n: "::".join(n.split(">::", 1)[1].split("::")) if ">::" in n else n
    cnt = collections.Counter(tail(i.name) for i in items if i.kind == "const")
    dups = {t for t, c in cnt.items() if c > 1}
    if not dups:
        return items
    seen = collections.Counter()
    group_of = {}
    for it in items:
        if it.kind == "const" and tail(it.name) in dups:
            seen[tail(it.name)] += 1
            group_of[id(it)] = seen[tail(it.name)]
    by_len = sorted(dups, key=len, reverse=True)

    def rewrite(line, pick):
        # replace `const <path>::<tail>` occurrences (longest tails first) by `...<tail>#k`
        out, pos = "", 0
        for m in re.finditer(r"const ([\w:<>]+)", line):
            path = m.group(1)
            hit = None
            for t in by_len:
                if path.endswith("::" + t) or path == t:
                    hit = t
                    break
            if hit is None:
                continue
            k = pick(hit)
            out += line[pos:m.end()] + "#%d" % k
            pos = m.end()
        return out + line[pos:]
    for it in items:
        if it.kind == "const" and id(it) in group_of:
            g = group_of[id(it)]
            it.name = it.name + "#%d" % g
            if it.simple_const is not None:
                it.simple_const = rewrite("const " + it.simple_const, lambda t: g)[6:]
            for b in it.order:
                st, term = it.blocks[b]
                it.blocks[b] = ([rewrite(x, lambda t: g) for x in st], rewrite(term, lambda t: g))
        elif it.kind in ("fn", "const"):
            occ = collections.Counter()
            def pick(t, occ=occ):
                occ[t] += 1
                return occ[t]
            for b in it.order:
                st, term = it.blocks[b]
                it.blocks[b] = ([rewrite(x, pick) for x in st], rewrite(term, pick))
    return items


def index(items):
    d = {}
    for it in items:
        d.setdefault(it.name, []).append(it)
    return d
