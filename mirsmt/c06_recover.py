"""C06/C02: structure of `Sharks::recover` from the MIR (Engine M).

std's BTreeSet / Vec / Option are modelled at the semantic level (a set is a list of
(key, present-condition) entries; `insert` returns "key differs from every present
key"), `to_repr` is abstracted to the identity on limbs (C07: canonical encodings are
injective) and `interpolate` is an opaque call whose argument list is the observable.
Points are fully symbolic 3-limb values."""
import itertools
import time
import z3
from . import mir, symex
from .symex import Agg, IV, BV_, Cell, Ref, Path, Ctx, Exec, Iter_, Unsupported

M64 = 2**64


def run_recover(E, ylens, t):
    """-> (paths, xs) for n = len(ylens) shares with symbolic points"""
    path = Path()
    xs = []
    cells = []
    for i, yl in enumerate(ylens):
        ls = [z3.Int("x%d_%d" % (i, k)) for k in range(3)]
        for l in ls:
            path.side += [l >= 0, l < M64]
        xs.append(ls)
        fp = Agg("Fp", [Agg("array", [IV(l, "u64") for l in ls])])
        ys = Agg("Vec", [Agg("Fp", [Agg("array", [IV(1000 + i, "u64"), IV(j, "u64"), IV(0, "u64")])]) for j in range(yl)])
        cells.append(Cell(Agg("Share", [fp, ys])))
    shares = Iter_([Ref(c) for c in cells])
    sharks = Agg("Sharks", [IV(t, "u32")])

    def hook(ex, fn, args, p):
        if fn.endswith("PrimeField>::to_repr"):
            f = args[0].get()
            return Agg("FpRepr", [Agg("array", [symex.copy_val(x) for x in f.f[0].f])])
        if fn == "<Share as Clone>::clone":
            return symex.copy_val(args[0].get())
        if fn == "interpolate":
            sl = args[0].get()
            return Agg("Interp", [symex.copy_val(x) for x in sl.f])
        return None
    it = [i for i in E.items if i.kind == "fn" and i.name.endswith("::recover")][0]
    ctx = Ctx(E.items, call_hook=hook)
    res = Exec(ctx).run(it, [Ref(Cell(sharks)), shares], path)
    return res, xs, ctx


def share_id(sh):
    return sh.f[1].f[0].f[0].f[0].t - 1000 if sh.f[1].f else None


def obligations(E, n_max=4, thresholds=(0, 1, 2, 3, 4, 2**32 - 1)):
    """queue all recover-structure queries on Engine E; returns number of (shape, t) cases"""
    cases = 0
    for n in range(0, n_max + 1):
        shapes = [tuple([1] * n)]
        if n >= 2:
            # one share of a different length at each position (incl. the first)
            for pos in range(n):
                s = [1] * n
                s[pos] = 0
                shapes.append(tuple(s))
            shapes.append(tuple([0] * n))
        for ylens in shapes:
            for t in thresholds:
                if t > n + 1 and t != 2**32 - 1:
                    continue
                cases += 1
                name = "recover[n=%d,ylens=%s,t=%s]" % (n, "".join(map(str, ylens)), t if t < 2**31 else "2^32-1")
                res, xs, ctx = run_recover(E, ylens, t)
                equal_len = len(set(ylens)) <= 1
                def xeq(i, j):
                    return z3.And(*[xs[i][k] == xs[j][k] for k in range(3)])
                new = [z3.And(*[z3.Not(xeq(i, j)) for j in range(i)]) if i else z3.BoolVal(True) for i in range(n)]
                distinct = z3.Sum(*[z3.If(b, 1, 0) for b in new]) if n else z3.IntVal(0)

                def post(p, rv, fr, ylens=ylens, t=t, n=n, new=new, distinct=distinct, equal_len=equal_len):
                    out = []
                    kind = rv.kind
                    if kind == "Err":
                        msg = rv.f[0].f[0]
                        if "same length" in msg:
                            out.append(("unequal lengths are the only reason for this error", z3.BoolVal(not equal_len)))
                        else:
                            out.append(("refused only if fewer than t distinct points (or none)",
                                        z3.And(z3.BoolVal(equal_len), z3.Or(distinct < t, z3.BoolVal(n == 0)))))
                    elif kind == "Interp":
                        ids = [x.f[1].f[0].f[0].f[0].t - 1000 if x.f[1].f else None for x in rv.f]
                        if any(i is None for i in ids):
                            # shares without y: identify by position through the x limbs
                            ids = []
                            for x in rv.f:
                                l0 = str(x.f[0].f[0].f[0].t)
                                ids.append(int(l0[1:].split("_")[0]))
                        out.append(("exactly t shares are interpolated", z3.BoolVal(len(ids) == t and equal_len)))
                        last = max(ids) if ids else -1
                        conds = []
                        for i in range(n):
                            if i <= last:
                                conds.append(new[i] if i in ids else z3.Not(new[i]))
                        out.append(("interpolated shares are the first t with pairwise distinct points, in input order",
                                    z3.And(z3.BoolVal(ids == sorted(ids)), *conds) if conds else z3.BoolVal(True)))
                        out.append(("at least t distinct points present", distinct >= t))
                    else:
                        out.append(("unexpected result " + kind, z3.BoolVal(False)))
                    return out
                names = [v for x in xs for v in x]
                E.prove_paths(name, res, post, inputs=names)
    return cases
