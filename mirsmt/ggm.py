"""C10 / C11: the GGM puncturable PRF, symbolically executed from the MIR of ppoprf::ggm.

Inputs (punctured bytes p_1..p_k and a probe byte y) are 8 symbolic bits each.  bitvec's
BitVec / BitSlice and std's Vec are modelled semantically (a bit vector is a list of
booleans); the Strobe-based PRG is replaced by a *free-algebra* PRG: a seed is (root, path),
a child appends the generator's bit, so a leaf value *is* the root plus the path and
"evaluates to exactly the value it had before" / "distinct inputs have distinct values" are
decided exactly, for every root seed, with no collision caveat.  `GGMPuncturableKey::new`
is executed from its MIR as well (bitvec's `bits![..]` literals and the `vec![..]` lowering
are modelled).

The interpreter forks only on *tree decisions* (which retained prefix covers an input, which
list position holds a prefix); per-bit generator selection is merged with if-then-else, so
path counts stay polynomial and no input byte is ever enumerated.
"""
import copy
import re
import time
import z3

from . import mir, symex
from .symex import (Agg, IV, BV_, Cell, Ref, IteRef, Path, Ctx, Exec, Iter_, Unsupported,
                    ForkRequest, val_eq, copy_val)


def bt(b):
    return z3.BoolVal(b.t) if isinstance(b.t, bool) else b.t


def bits_of_byte(name, path):
    """8 fresh booleans, least significant first (bitvec Lsb0 order)"""
    return [BV_(z3.Bool("%s_%d" % (name, i))) for i in range(8)]


def bits_val(bits):
    return Agg("Bits", [BV_(b.t) for b in bits])


def deref(x):
    return x.get() if isinstance(x, (Ref, IteRef)) else x


def bits_eq(a, b):
    if not (isinstance(a, Agg) and isinstance(b, Agg) and a.kind == "Bits" and b.kind == "Bits"):
        return val_eq(a, b)
    if len(a.f) != len(b.f):
        return z3.BoolVal(False)
    return z3.And(*[bt(x) == bt(y) for x, y in zip(a.f, b.f)]) if a.f else z3.BoolVal(True)


def starts_with(a, b):
    """a starts with b"""
    if len(b.f) > len(a.f):
        return z3.BoolVal(False)
    return z3.And(*[bt(x) == bt(y) for x, y in zip(a.f, b.f)]) if b.f else z3.BoolVal(True)


def simp(c):
    c = z3.simplify(c)
    if z3.is_true(c):
        return BV_(True)
    if z3.is_false(c):
        return BV_(False)
    return BV_(c)


class Model:
    """call hook + library models for ppoprf::ggm"""

    def __init__(self, items):
        self.items = items
        self.setup_n = 0
        self.summarise_new = False

    def seed(self, root, bits):
        return Agg("Vec", [Agg("Seed", [root, Agg("Bits", list(bits))])])

    def new_key(self):
        g0 = Agg("GGMPseudorandomGenerator", [IV(0, "u8")])
        g1 = Agg("GGMPseudorandomGenerator", [IV(1, "u8")])
        p0 = Agg("tuple", [Agg("Prefix", [Agg("Bits", [BV_(False)])]), self.seed("root", [BV_(False)])])
        p1 = Agg("tuple", [Agg("Prefix", [Agg("Bits", [BV_(True)])]), self.seed("root", [BV_(True)])])
        return Agg("GGMPuncturableKey", [Agg("Vec", [g0, g1]), Agg("Vec", [p0, p1]), Agg("Vec", [])])

    def closure_for(self, ex, fn):
        m = re.search(r"\{closure@([^}]*)\}", fn)
        span = m.group(1) if m else None
        cands = [it for it in self.items if it.kind == "fn" and it.params and span and span in it.params[0][1] and "{closure#" in it.name]
        if len(cands) != 1:
            raise Unsupported("closure for " + fn)
        return cands[0]

    def run_closure(self, ex, clos, env, arg, path):
        res = Exec(ex.ctx).run(clos, [Ref(Cell(env)), arg], path)
        if len(res) != 1:
            raise Unsupported("closure forked")
        return res[0][1]

    def hook(self, ex, fn, args, path):
        # ---- repository functions that are summarised / stubbed -----------------------
        if fn == "sample_secret":
            return self.seed("root", [])
        if fn == "GGMPuncturableKey::new" and self.summarise_new:
            return self.new_key()
        if fn == "GGMPseudorandomGenerator::setup":
            n = self.setup_n
            self.setup_n += 1
            return Agg("GGMPseudorandomGenerator", [IV(n, "u8")])
        # ---- lowering of vec![..] and of bitvec's bits![..] ------------------------------------
        if fn.startswith("Box::<[") and fn.endswith("::new_uninit"):
            slot = Cell(Agg("MaybeUninit", [Agg("unit", []), Agg("ManuallyDrop", [Agg("MaybeDangling", [None])])]))
            return Agg("Box", [Agg("Unique", [Ref(slot)])])
        if fn.startswith("std::boxed::box_assume_init_into_vec_unsafe::<"):
            arr = args[0].f[0].f[0].get().f[1].f[0].f[0]
            return Agg("Vec", list(arr.f))
        if fn == "bitvec::macros::internal::u8_from_le_bits":
            v = 0
            for i, b in enumerate(args):
                if not b.conc():
                    raise Unsupported("symbolic bits! literal")
                v |= int(b.t) << i
            return IV(v, "u8")
        if fn == "core::num::<impl u64>::from_le_bytes":
            return IV(sum(x.t << (8 * i) for i, x in enumerate(args[0].f)), "u64")
        if fn == "elts::<usize>" or fn.endswith("::elts::<usize>"):
            return IV((args[0].t + 63) // 64, "usize")
        if fn == "bitvec::mem::BitElement::new":
            return Agg("BitElement", [args[0]])
        if fn == "BitArray::new":
            return Agg("BitArray", [args[0]])
        if fn == "<BitArray as Index<RangeTo<usize>>>::index":
            arr = deref(args[0]).f[0]
            end = args[1].f[0]
            bits = []
            for w in arr.f:
                for i in range(64):
                    bits.append(BV_(bool((w.t >> i) & 1)))
            return Ref(Cell(Agg("Bits", bits[:end.t])))
        if fn == "GGMPseudorandomGenerator::eval":
            prg = deref(args[0])
            marker = prg.f[0]
            bit = BV_(marker.t == 1) if isinstance(marker.t, int) else simp(marker.t == 1)
            inp = deref(args[1])
            sd = inp.f[0]
            if not (isinstance(sd, Agg) and sd.kind == "Seed"):
                raise Unsupported("PRG input is not a seed: %r" % (sd,))
            out = Agg("Seed", [sd.f[0], Agg("Bits", list(sd.f[1].f) + [bit])])
            tgt = args[2]
            cur = tgt.get()
            tgt.set(Agg(cur.kind if isinstance(cur, Agg) else "Vec", [out]))
            return Agg("tuple", [])
        # ---- bitvec ----------------------------------------------------------------------
        if fn in ("<bitvec::vec::BitVec as Deref>::deref", "<bitvec::vec::BitVec as DerefMut>::deref_mut",
                  "<Vec<u8> as Deref>::deref", "<Vec<u8> as DerefMut>::deref_mut") or re.match(r"^<Vec<.*> as Deref(Mut)?>::deref(_mut)?$", fn):
            return args[0]
        if fn == "bitvec::vec::BitVec::<u8>::from_slice":
            sl = deref(args[0])
            bits = []
            for byte in sl.f:
                bb = getattr(self, "byte_bits", {}).get(id(byte))
                if bb is None:
                    key = byte.t.sexpr() if not isinstance(byte.t, int) else byte.t
                    bb = self.reg.get(key)
                if bb is None:
                    if isinstance(byte.t, int):
                        bb = [BV_(bool((byte.t >> i) & 1)) for i in range(8)]
                    elif str(byte.t) in self.reg:
                        bb = self.reg[str(byte.t)]
                    else:
                        raise Unsupported("unregistered symbolic byte")
                bits += bb
            return Agg("Bits", [BV_(b.t) for b in bits])
        if re.match(r"^bitvec::vec::api::<impl bitvec::vec::BitVec(<u8>)?>::len$", fn) or fn == "bitvec::slice::api::<impl BitSlice>::len":
            return IV(len(deref(args[0]).f), "usize")
        if fn == "ggm::Prefix::len":
            return IV(len(deref(args[0]).f[0].f), "usize")
        if fn == "ggm::Prefix::new":
            return Agg("Prefix", [args[0]])
        if fn.endswith("BitVec>::with_capacity"):
            return Agg("Bits", [])
        if fn.endswith("BitVec>::push"):
            args[0].get().f.append(args[1])
            return Agg("tuple", [])
        m = re.match(r"^<(bitvec::vec::BitVec|BitSlice) as Index<(std::ops::)?(RangeFrom|RangeTo|RangeInclusive|Range)<usize>>>::index$", fn)
        if m:
            b = deref(args[0]).f
            r = args[1].f if isinstance(args[1], Agg) else []
            kind = m.group(3)
            if kind == "RangeInclusive":
                rng = args[1]
                its = rng.items if isinstance(rng, Iter_) else None
                if its is None:
                    raise Unsupported("inclusive range value")
                lo, hi = (its[0].t, its[-1].t + 1) if its else (0, 0)
            else:
                lo = r[0].t if kind in ("RangeFrom", "Range") else 0
                hi = r[-1].t if kind in ("RangeTo", "Range") else len(b)
            if not (0 <= lo <= hi <= len(b)):
                raise Unsupported("bit range out of bounds (panic path)")
            return Ref(Cell(Agg("Bits", b[lo:hi])))
        if fn in ("<BitSlice as Index<usize>>::index", "<bitvec::vec::BitVec as Index<usize>>::index"):
            i = args[1]
            if not i.conc():
                raise Unsupported("symbolic bit index")
            return Ref(Cell(deref(args[0]).f[i.t]))
        if fn == "<bitvec::vec::BitVec<u8> as Index<usize>>::index":
            i = args[1]
            if not i.conc():
                raise Unsupported("symbolic bit index")
            return Ref(Cell(deref(args[0]).f[i.t]))
        if fn.startswith("bitvec::slice::api::<impl BitSlice>::starts_with"):
            return simp(starts_with(deref(args[0]), deref(args[1])))
        if fn == "<bitvec::vec::BitVec as PartialEq>::eq":
            return simp(bits_eq(deref(args[0]), deref(args[1])))
        if fn == "bitvec::slice::api::<impl BitSlice>::split_at":
            b = deref(args[0])
            n = args[1]
            if not n.conc():
                raise Unsupported("symbolic split")
            if n.t > len(b.f):
                raise Unsupported("split_at out of range (panic path)")
            return Agg("tuple", [Ref(Cell(Agg("Bits", b.f[:n.t]))), Ref(Cell(Agg("Bits", b.f[n.t:])))])
        if fn == "BitSlice::to_bitvec" or fn == "<bitvec::vec::BitVec as Clone>::clone":
            return Agg("Bits", list(deref(args[0]).f))
        if fn == "bitvec::slice::api::<impl BitSlice>::split_last":
            b = deref(args[0])
            if not b.f:
                return Agg("None", [])
            return Agg("Some", [Agg("tuple", [Ref(Cell(b.f[-1])), Ref(Cell(Agg("Bits", b.f[:-1])))])])
        if fn == "<BitRef<'_> as Deref>::deref":
            return args[0].get()
        if fn == "BitSlice::set":
            tgt = args[0].get()
            i = args[1]
            if not i.conc():
                raise Unsupported("symbolic set index")
            tgt.f[i.t] = args[2]
            return Agg("tuple", [])
        if fn == "<&bitvec::vec::BitVec as IntoIterator>::into_iter":
            return Iter_([Ref(Cell(x)) for x in deref(args[0]).f])
        # ---- std ---------------------------------------------------------------------------
        if fn == "std::vec::from_elem::<u8>":
            n = args[1]
            return Agg("Vec", [IV(args[0].t, "u8") for _ in range(n.t)])
        if fn.startswith("std::vec::from_elem::<"):
            n = args[1]
            if not n.conc():
                raise Unsupported("symbolic vec length")
            return Agg("Vec", [copy.deepcopy(args[0]) for _ in range(n.t)])
        if re.match(r"^Vec::<.*>::pop$", fn):
            v = args[0].get()
            return Agg("Some", [v.f.pop()]) if v.f else Agg("None", [])
        if re.match(r"^Vec::<.*>::len$", fn):
            return IV(len(deref(args[0]).f), "usize")
        if re.match(r"^Vec::<.*>::swap_remove$", fn):
            v = args[0].get()
            i = args[1]
            if not i.conc():
                raise Unsupported("symbolic swap_remove index")
            x = v.f[i.t]
            last = v.f.pop()
            if i.t < len(v.f):
                v.f[i.t] = last
            return x
        if re.match(r"^<Vec<.*> as IndexMut<usize>>::index_mut$", fn):
            i = args[1]
            if not i.conc():
                raise Unsupported("symbolic Vec index")
            return args[0].sub(i.t)
        if fn == "std::slice::<impl [u8]>::to_vec" or fn == "<Vec<u8> as Clone>::clone":
            return Agg("Vec", [copy_val(x) for x in deref(args[0]).f])
        if fn == "core::slice::<impl [u8]>::copy_from_slice":
            src = deref(args[1])
            cur = args[0].get()
            args[0].set(Agg(cur.kind if isinstance(cur, Agg) else "Vec", [copy_val(x) for x in src.f]))
            return Agg("tuple", [])
        if re.match(r"^<Vec<.*> as Clone>::clone$", fn) or fn in ("<ggm::Prefix as Clone>::clone", "<GGMPuncturableKey as Clone>::clone"):
            return copy.deepcopy(deref(args[0]))
        if re.match(r"^<Vec<.*> as IntoIterator>::into_iter$", fn):
            v = args[0]
            return Iter_(list(v.f))
        if re.match(r"^<std::vec::IntoIter<.*> as Iterator>::next$", fn):
            it = args[0].get()
            if it.items:
                return Agg("Some", [it.items.pop(0)])
            return Agg("None", [])
        if re.match(r"^core::slice::<impl \[.*\]>::iter$", fn):
            r = args[0]
            return Iter_([r.sub(i) for i in range(len(r.get().f))])
        if re.match(r"^<Vec<.*> as Index<usize>>::index$", fn):
            i = args[1]
            if not i.conc():
                raise Unsupported("symbolic Vec index")
            return args[0].sub(i.t)
        if re.match(r"^Vec::<.*>::new$", fn):
            return Agg("Vec", [])
        if re.match(r"^Vec::<.*>::push$", fn):
            args[0].get().f.append(args[1])
            return Agg("tuple", [])
        if re.match(r"^Vec::<.*>::is_empty$", fn):
            return BV_(len(deref(args[0]).f) == 0)
        if re.match(r"^Vec::<.*>::remove$", fn):
            i = args[1]
            if not i.conc():
                raise Unsupported("symbolic remove index")
            return args[0].get().f.pop(i.t)
        if " as Extend<" in fn and ">::extend::<" in fn:
            src = args[1]
            args[0].get().f.extend(src.items if isinstance(src, Iter_) else src.f)
            return Agg("tuple", [])
        if re.search(r" as Iterator>::skip$", fn):
            it = args[0]
            n = args[1]
            if not n.conc():
                raise Unsupported("symbolic skip")
            return Iter_(it.items[n.t:])
        if re.match(r"^<.* as PartialEq>::(eq|ne)$", fn):
            c = val_eq(deref(args[0]), deref(args[1]))
            return simp(c if fn.endswith("::eq") else z3.Not(c))
        if "Iterator>::any::<" in fn:
            it = deref(args[0])
            clos = self.closure_for(ex, fn)
            conds = [self.run_closure(ex, clos, args[1], x, path) for x in it.items]
            if not conds:
                return BV_(False)
            return simp(z3.Or(*[bt(c) for c in conds]))
        if "Iterator>::position::<" in fn:
            it = deref(args[0])
            clos = self.closure_for(ex, fn)
            conds = [bt(self.run_closure(ex, clos, args[1], x, path)) for x in it.items]
            alts = []
            for i, c in enumerate(conds):
                alts.append((z3.And(*([z3.Not(d) for d in conds[:i]] + [c])), Agg("Some", [IV(i, "usize")])))
            alts.append((z3.And(*[z3.Not(d) for d in conds]) if conds else z3.BoolVal(True), Agg("None", [])))
            raise ForkRequest(alts)
        if fn == "std::ops::RangeInclusive::<usize>::new":
            a, b = args
            if not (a.conc() and b.conc()):
                raise Unsupported("symbolic inclusive range")
            return Iter_([IV(i, "usize") for i in range(a.t, b.t + 1)])
        if re.match(r"^<.*RangeInclusive<usize>.* as (Iterator>::rev|IntoIterator>::into_iter)$", fn):
            it = args[0]
            return Iter_(list(reversed(it.items))) if fn.endswith("::rev") else it
        if re.match(r"^<.*RangeInclusive<usize>.* as Iterator>::next$", fn):
            it = args[0].get()
            return Agg("Some", [it.items.pop(0)]) if it.items else Agg("None", [])
        if fn == "<std::ops::Range<usize> as Iterator>::rev":
            lo, hi = args[0].f
            return Iter_([IV(i, "usize") for i in reversed(range(lo.t, hi.t))])
        if fn == "<std::ops::Range<usize> as IntoIterator>::into_iter":
            lo, hi = args[0].f
            return Iter_([IV(i, "usize") for i in range(lo.t, hi.t)])
        if fn in ("<Rev<std::ops::Range<usize>> as IntoIterator>::into_iter",):
            return args[0]
        if fn in ("<Rev<std::ops::Range<usize>> as Iterator>::next", "<std::ops::Range<usize> as Iterator>::next",
                  "<bitvec::slice::Iter<'_, usize, LocalBits> as Iterator>::next"):
            it = args[0].get()
            if it.items:
                return Agg("Some", [it.items.pop(0)])
            return Agg("None", [])
        # ---- curve25519-dalek: opaque uninterpreted terms ------------------------------------
        if fn == "CompressedRistretto::decompress":
            pt = deref(args[0])
            dec = z3.Bool("decodable")
            raise ForkRequest([(dec, Agg("Some", [Agg("UF", ["decompress", copy_val(pt)])])), (z3.Not(dec), Agg("None", []))])
        if fn.startswith("Scalar::random"):
            return Agg("UF", ["oprf_key"])
        if fn == "Scalar::from_bytes_mod_order":
            return Agg("UF", ["scalar_from_bytes", copy_val(args[0])])
        nfn = fn.replace("&'a ", "").replace("&'b ", "").replace("&", "")
        if nfn in ("<Scalar as Mul<RistrettoPoint>>::mul", "<Scalar as Add>::add"):
            return Agg("UF", [nfn, copy_val(deref(args[0])), copy_val(deref(args[1]))])
        if fn in ("Scalar::invert", "RistrettoPoint::compress"):
            return Agg("UF", [fn, copy_val(deref(args[0]))])
        if re.match(r"^std::option::Option::<.*>::ok_or::<.*>$", fn):
            return Agg("Ok", [args[0].f[0]]) if args[0].kind == "Some" else Agg("Err", [args[1]])
        m = re.match(r"^(std::result::)?Result::<.*>::(is_ok|is_err)$", fn)
        if m:
            k = deref(args[0]).kind
            if k not in ("Ok", "Err"):
                raise Unsupported("is_ok on " + k)
            return BV_((k == "Ok") == (m.group(2) == "is_ok"))
        if re.match(r"^std::option::Option::<.*>::is_none$", fn):
            return BV_(deref(args[0]).kind == "None")
        if fn == "BTreeMap::<u8, Point>::new":
            return Agg("BTreeMap", [])
        if fn == "BTreeMap::<u8, Point>::insert":
            mp = args[0].get()
            k = args[1]
            if not k.conc():
                raise Unsupported("symbolic map key insert")
            for e in mp.f:
                if e.f[0].t == k.t:
                    old = e.f[1]
                    e.f[1] = args[2]
                    return Agg("Some", [old])
            mp.f.append(Agg("entry", [k, args[2]]))
            return Agg("None", [])
        if re.match(r"^<Vec<.*> as Zeroize>::zeroize$", fn):
            # zeroize on a Vec wipes the elements and clears it
            args[0].get().f[:] = []
            return Agg("tuple", [])
        m = re.match(r"^(alloc::vec::)?Vec::<.*>::resize$", fn)
        if m:
            v = args[0].get()
            n = args[1]
            if not n.conc():
                raise Unsupported("symbolic resize")
            while len(v.f) < n.t:
                v.f.append(copy_val(args[2]))
            del v.f[n.t:]
            return Agg("tuple", [])
        if fn == "BTreeMap::<u8, Point>::keys":
            mp = deref(args[0])
            return Iter_([Ref(Cell(copy_val(e.f[0]))) for e in sorted(mp.f, key=lambda e: e.f[0].t)])
        if re.match(r"^<.* as Iterator>::(copied|cloned)(::<.*>)?$", fn) and isinstance(args[0], Iter_):
            return Iter_([copy_val(deref(x)) for x in args[0].items])
        if fn == "BTreeMap::<u8, Point>::get::<u8>":
            mref = args[0]
            k = deref(args[1])
            mp = mref.get()
            alts = []
            if k.conc():
                for i, e in enumerate(mp.f):
                    if e.f[0].t == k.t:
                        return Agg("Some", [mref.sub(i).sub(1)])
                return Agg("None", [])
            for i, e in enumerate(mp.f):
                alts.append((k.t == e.f[0].t, Agg("Some", [mref.sub(i).sub(1)])))
            alts.append((z3.And(*[k.t != e.f[0].t for e in mp.f]) if mp.f else z3.BoolVal(True), Agg("None", [])))
            raise ForkRequest(alts)
        if fn == "Vec::<ggm::Prefix>::new":
            return Agg("Vec", [])
        if fn in ("<ServerPublicKey as Clone>::clone", "<Scalar as Clone>::clone", "<GGM as Clone>::clone"):
            return copy.deepcopy(deref(args[0]))
        if fn.endswith(" as Try>::branch"):
            r = args[0]
            if r.kind == "Ok":
                return Agg("Continue", [r.f[0]])
            return Agg("Break", [Agg("Err", [r.f[0]])])
        if "FromResidual<" in fn and fn.endswith("::from_residual"):
            return Agg("Err", [args[0].f[0]])
        return None


symex.DISCR.update({"Continue": 0, "Break": 1, "NoPrefixFound": 0, "AlreadyPunctured": 0, "UnexpectedEndOfBv": 0,
                    "BadInputLength": 0, "BadTag": 0, "BadPointEncoding": 0, "SerializedDataTooBig": 0})


class Run:
    def __init__(self, mir_text):
        self.items = mir.parse(mir_text)
        self.model = Model(self.items)
        self.model.reg = {}
        self.stats = {"paths": 0, "merges": 0, "forks": 0}
        self._fresh = None

    def item(self, suffix):
        its = [i for i in self.items if i.kind == "fn" and i.name.endswith(suffix)]
        if len(its) != 1:
            raise Unsupported("item %s: %d candidates" % (suffix, len(its)))
        return its[0]

    def ggm_items(self):
        # the PPRF impl for GGM (impl at src/ggm.rs:168) — eval / puncture with (&GGM, &[u8], ..)
        ev = [i for i in self.items if i.kind == "fn" and i.name.endswith("::eval") and len(i.params) == 3 and "GGM" in i.params[0][1] and "Pseudo" not in i.params[0][1]]
        pu = [i for i in self.items if i.kind == "fn" and i.name.endswith("::puncture") and len(i.params) == 2 and i.params[0][1].strip() == "&mut GGM"]
        if len(ev) != 1 or len(pu) != 1:
            raise Unsupported("GGM eval/puncture items: %d/%d" % (len(ev), len(pu)))
        return ev[0], pu[0]

    def sym_byte(self, name):
        bits = bits_of_byte(name, None)
        term = z3.Sum(*[z3.If(bt(b), 1 << i, 0) for i, b in enumerate(bits)])
        self.model.reg[term.sexpr()] = bits
        return IV(term, "u8"), bits

    def call(self, item, args, path):
        ctx = Ctx(self.items, call_hook=self.model.hook)
        ctx.merge_diamonds = True
        ctx.opaque_consts = True
        res = Exec(ctx).run(item, args, path)
        self.stats["merges"] += ctx.stats.get("merges", 0)
        self.stats["forks"] += ctx.stats.get("forks", 0)
        return res

    def fresh_ggm(self):
        """a fresh key, by executing `<GGM as PPRF>::setup` -> `GGMPuncturableKey::new`"""
        if self._fresh is None:
            self.model.setup_n = 0
            its = [i for i in self.items if i.kind == "fn" and i.name.endswith("::setup") and i.ret.strip() == "GGM"]
            if len(its) != 1:
                raise Unsupported("GGM::setup item")
            res = self.call(its[0], [], Path())
            if len(res) != 1:
                raise Unsupported("GGM::setup forked")
            self._fresh = res[0][1]
        return Cell(copy.deepcopy(self._fresh))

    def eval(self, ggm_ref, inp_bytes, path):
        """-> [(path, result Agg Ok/Err, out value, ggm_ref in that world)]"""
        ev, _ = self.ggm_items()
        out = Cell(Agg("array", [IV(0, "u8") for _ in range(32)]))
        inp = Cell(Agg("slice", list(inp_bytes)))
        # args share one world so that forks copy them together
        res = self.call(ev, [ggm_ref, Ref(inp), Ref(out)], path)
        outs = []
        for p, rv, fr in res:
            outs.append((p, rv, fr.cell("_3").v.get(), fr.cell("_1").v))
        self.stats["paths"] += len(outs)
        return outs

    def puncture(self, ggm_ref, inp_bytes, path):
        _, pu = self.ggm_items()
        inp = Cell(Agg("slice", list(inp_bytes)))
        res = self.call(pu, [ggm_ref, Ref(inp)], path)
        outs = [(p, rv, fr.cell("_1").v) for p, rv, fr in res]
        self.stats["paths"] += len(outs)
        return outs


def key_of(ggm_ref):
    return ggm_ref.get().f[1]


def seed_is(v, bits):
    """value v (32-byte buffer holding a Seed) is PRG-path `bits` from the root"""
    sd = v.f[0]
    if not (isinstance(sd, Agg) and sd.kind == "Seed") or sd.f[0] != "root":
        return z3.BoolVal(False)
    return bits_eq(sd.f[1], Agg("Bits", list(bits)))


def byte_eq(a, b):
    return z3.And(*[bt(x) == bt(y) for x, y in zip(a, b)])


# ---------------------------------------------------------------------------
# obligations
# ---------------------------------------------------------------------------

def key_eq(a, b):
    """structural equality of two key states (prefix list incl. seeds, punctured list)"""
    return val_eq(a, b)


def obligations(E, R, k, log=lambda *a: None):
    """queue the C10 / C11 queries for every history of k symbolic punctures followed by one
    symbolic probe.  Returns a dict of counters."""
    t0 = time.time()
    P = [R.sym_byte("p%d" % i) for i in range(1, k + 1)]
    yb, Y = R.sym_byte("y")
    names = [b.t for _, bits in P for b in bits] + [b.t for b in Y]
    tag = "k=%d" % k
    stats = {"history_paths": 0, "probe_paths": 0}

    def q(name, path, claim, label):
        E.query((name, 0, label), list(path.side) + list(path.pc) + [z3.Not(claim)], "unsat", names)

    def feas(name, path, label):
        E.query((name, 0, label), list(path.side) + list(path.pc), "sat")

    # ---- fresh key: every input evaluates to Seed(root, bits(y)); wrong lengths refused
    g0 = R.fresh_ggm()
    key0 = copy.deepcopy(key_of(Ref(g0)))
    for p, rv, out, gr in R.eval(Ref(g0), [yb], Path()):
        feas("c10::fresh-eval[%s]" % tag, p, "path")
        q("c10::fresh-eval[%s]" % tag, p, z3.BoolVal(rv.kind == "Ok"), "a fresh key evaluates every input")
        if rv.kind == "Ok":
            q("c10::fresh-eval[%s]" % tag, p, seed_is(out, Y), "the value is the leaf of the input's path: distinct inputs have distinct values")
        q("c10::fresh-eval[%s]" % tag, p, key_eq(key_of(gr), key0), "evaluation does not change the key")
    for n_in in (0, 2):
        extra = [R.sym_byte("z%d" % i)[0] for i in range(n_in)]
        for p, rv, out, gr in R.eval(Ref(R.fresh_ggm()), extra, Path()):
            q("c10::wrong-length[%s]" % tag, p, z3.BoolVal(rv.kind == "Err" and rv.f[0].kind == "BadInputLength"), "evaluation refuses a %d-byte input" % n_in)
            q("c10::wrong-length[%s]" % tag, p, key_eq(key_of(gr), key0), "and leaves the key unchanged")
        for p, rv, gr in R.puncture(Ref(R.fresh_ggm()), extra, Path()):
            q("c10::wrong-length[%s]" % tag, p, z3.BoolVal(rv.kind == "Err" and rv.f[0].kind == "BadInputLength"), "puncturing refuses a %d-byte input" % n_in)
            q("c10::wrong-length[%s]" % tag, p, key_eq(key_of(gr), key0), "and leaves the key unchanged")
    E.fn_paths["c10::wrong-length[%s]" % tag] = 1

    # ---- history of k punctures ---------------------------------------------------------
    states = [(Path(), Ref(R.fresh_ggm()))]
    for i in range(k):
        pb, Pi = P[i]
        nxt = []
        for p, g in states:
            before = copy.deepcopy(key_of(g))
            for p2, rv, g2 in R.puncture(g, [pb], p):
                name = "c10::puncture-%d[%s]" % (i + 1, tag)
                feas(name, p2, "path")
                fresh = z3.And(*[z3.Not(byte_eq(Pi, P[j][1])) for j in range(i)]) if i else z3.BoolVal(True)
                if rv.kind == "Ok":
                    q(name, p2, fresh, "a puncture succeeds only for an input that was not punctured before")
                else:
                    q(name, p2, z3.Not(fresh), "a puncture fails only for an input that was punctured before")
                    q(name, p2, key_eq(key_of(g2), before), "a failed puncture leaves the key unchanged")
                nxt.append((p2, g2))
        states = nxt
        stats["history_paths"] = len(states)
    # ---- after the history ----------------------------------------------------------------
    for si, (p, g) in enumerate(states):
        key = key_of(g)
        prefixes = key.f[1].f
        name = "c11::retained[%s]" % tag
        feas(name, p, "path")
        for a, e in enumerate(prefixes):
            B = e.f[0].f[0]
            S = e.f[1]
            q(name, p, z3.BoolVal(len(B.f) >= 1), "the root secret is not retained")
            q(name, p, seed_is(S, B.f), "a retained seed is exactly the value of its own node (no ancestor's seed survives)")
            for j in range(k):
                q(name, p, z3.Not(starts_with(Agg("Bits", P[j][1]), B)), "no retained node lies on the path to a punctured input")
            for b2, e2 in enumerate(prefixes):
                if b2 != a:
                    q(name, p, z3.Not(starts_with(B, e2.f[0].f[0])), "retained nodes are pairwise prefix-free")
        yv = Agg("Bits", Y)
        cover = z3.Sum(*[z3.If(starts_with(yv, e.f[0].f[0]), 1, 0) for e in prefixes]) if prefixes else z3.IntVal(0)
        in_set = z3.Or(*[byte_eq(Y, P[j][1]) for j in range(k)])
        q(name, p, z3.If(in_set, cover == 0, cover == 1), "every unpunctured input is covered by exactly one retained node, punctured inputs by none")
        # ---- probe ------------------------------------------------------------------------
        before = copy.deepcopy(key)
        for p3, rv, out, g3 in R.eval(g, [yb], p):
            name = "c10::probe[%s]" % tag
            stats["probe_paths"] += 1
            feas(name, p3, "path")
            if rv.kind == "Ok":
                q(name, p3, z3.Not(in_set), "a punctured input can never be evaluated again")
                q(name, p3, seed_is(out, Y), "every other input keeps exactly the value it had before any puncturing")
            else:
                q(name, p3, in_set, "only punctured inputs fail to evaluate")
            q(name, p3, key_eq(key_of(g3), before), "evaluation does not change the key")
    stats["wall_s"] = round(time.time() - t0, 1)
    stats.update(R.stats)
    return stats


# ---------------------------------------------------------------------------
# C14: the randomness server (ppoprf::Server) on top of the GGM key
# ---------------------------------------------------------------------------

def server_items(R):
    def one(suffix, pred):
        its = [i for i in R.items if i.kind == "fn" and i.name.endswith(suffix) and pred(i)]
        if len(its) != 1:
            raise Unsupported("server item %s: %d candidates" % (suffix, len(its)))
        return its[0]
    new = one("::new", lambda i: i.ret.startswith("Result<Server"))
    ev = one("::eval", lambda i: len(i.params) == 4 and i.params[0][1].strip() == "&Server")
    pu = one("::puncture", lambda i: len(i.params) == 2 and i.params[0][1].strip() == "&mut Server")
    gp = one("::get_public_key", lambda i: True)
    sp = one("::set_private_key", lambda i: True)
    return new, ev, pu, gp, sp


def server_obligations(E, R, k, log=lambda *a: None):
    """C14: for concrete registered tag sets, every history of k symbolic punctures followed by
    one symbolic evaluation request (symbolic tag, symbolic point decodability)."""
    t0 = time.time()
    new, ev, pu, gp, sp = server_items(R)
    stats = {"paths": 0}
    for reg in ([0, 255], [1, 2], []):
        rtag = "reg=%s,k=%d" % (reg, k)
        T = [R.sym_byte("t%d" % i) for i in range(1, k + 1)]
        mdv, MD = R.sym_byte("md")
        names = [b.t for _, bits in T for b in bits] + [b.t for b in MD] + [z3.Bool("decodable")]

        def q(name, path, claim, label):
            E.query((name, 0, label), list(path.side) + list(path.pc) + [z3.Not(claim)], "unsat", names)

        def feas(name, path, label):
            E.query((name, 0, label), list(path.side) + list(path.pc), "sat")

        res = R.call(new, [Agg("Vec", [IV(t, "u8") for t in reg])], Path())
        if len(res) != 1 or res[0][1].kind != "Ok":
            raise Unsupported("Server::new did not return a single Ok")
        server0 = res[0][1].f[0]
        pk0 = copy.deepcopy(server0.f[1])
        reg_keys = [e.f[0].t for e in pk0.f[1].f]
        q("c14::new[%s]" % rtag, res[0][0], z3.BoolVal(sorted(reg_keys) == sorted(reg)), "the public key registers exactly the tags given at creation")
        pt = Agg("Point", [Agg("UF", ["client_point"])])

        def do_eval(server_ref, path):
            out = []
            for p, rv, fr in R.call(ev, [server_ref, Ref(Cell(copy.deepcopy(pt))), mdv, BV_(False)], path):
                out.append((p, rv, fr.cell("_1").v))
            return out
        registered = z3.Or(*[byte_eq(MD, [BV_(bool((t >> i) & 1)) for i in range(8)]) for t in reg]) if reg else z3.BoolVal(False)
        dec = z3.Bool("decodable")
        # reference answers of the untouched server
        fresh_answers = []
        for p, rv, sref in do_eval(Ref(Cell(copy.deepcopy(server0))), Path()):
            fresh_answers.append((p, rv))
            name = "c14::fresh[%s]" % rtag
            feas(name, p, "path")
            q(name, p, z3.BoolVal(rv.kind == "Ok") == z3.And(dec, registered), "an untouched server answers iff the point decodes and the tag is registered")
        # history
        states = [(Path(), Ref(Cell(copy.deepcopy(server0))))]
        for i in range(k):
            tb, Ti = T[i]
            nxt = []
            for p, sref in states:
                for p2, rv, fr in R.call(pu, [sref, tb], p):
                    s2 = fr.cell("_1").v
                    name = "c14::puncture-%d[%s]" % (i + 1, rtag)
                    feas(name, p2, "path")
                    fresh = z3.And(*[z3.Not(byte_eq(Ti, T[j][1])) for j in range(i)]) if i else z3.BoolVal(True)
                    q(name, p2, z3.BoolVal(rv.kind == "Ok") == fresh, "a tag can be punctured exactly once")
                    q(name, p2, val_eq(s2.get().f[1], pk0), "puncturing never changes the public key")
                    q(name, p2, val_eq(s2.get().f[0], server0.f[0]), "nor the OPRF key")
                    nxt.append((p2, s2))
            states = nxt
        stats["paths"] += len(states)
        punct = z3.Or(*[byte_eq(MD, T[j][1]) for j in range(k)]) if k else z3.BoolVal(False)
        for p, sref in states:
            before = copy.deepcopy(sref.get())
            # export -> import into another instance: whole-state replacement
            exp = sref.get()
            state = Agg("ServerKeyState", [copy.deepcopy(exp.f[0]), copy.deepcopy(exp.f[1]), copy.deepcopy(exp.f[2].f[1])])
            other = R.call(new, [Agg("Vec", [IV(7, "u8")])], Path())[0][1].f[0]
            imp = Cell(other)
            r_imp = R.call(sp, [Ref(imp), state], p)
            for p_i, _, fr_i in r_imp:
                q("c14::import[%s]" % rtag, p_i, val_eq(fr_i.cell("_1").v.get(), before), "a server that imports the exported key state equals the exporter at the moment of export, punctures included")
            # a replica that was synchronised before the punctures (same OPRF / public key)
            stale = Cell(copy.deepcopy(server0))
            state2 = Agg("ServerKeyState", [copy.deepcopy(exp.f[0]), copy.deepcopy(exp.f[1]), copy.deepcopy(exp.f[2].f[1])])
            for p_i, _, fr_i in R.call(sp, [Ref(stale), state2], p):
                q("c14::import[%s]" % rtag, p_i, val_eq(fr_i.cell("_1").v.get(), before), "a previously synchronised replica that imports the newer state equals the exporter too (every puncture made so far is taken over)")
            for p3, rv, s3 in do_eval(sref, p):
                name = "c14::probe[%s]" % rtag
                feas(name, p3, "path")
                q(name, p3, z3.BoolVal(rv.kind == "Ok") == z3.And(dec, registered, z3.Not(punct)),
                  "the server answers iff the point decodes, the tag was registered at creation and has not been punctured in this key's history")
                if rv.kind == "Err":
                    kind = rv.f[0].kind
                    want = z3.If(z3.Not(dec), kind == "BadPointEncoding", z3.If(z3.Not(registered), kind == "BadTag", kind == "NoPrefixFound"))
                    q(name, p3, want if not isinstance(want, bool) else z3.BoolVal(want), "failures are reported through the function's own error")
                else:
                    # the same answer as the untouched server gives for this (point, tag)
                    same = []
                    for pf, rf in fresh_answers:
                        if rf.kind == "Ok":
                            same.append(z3.Implies(z3.And(*pf.pc) if pf.pc else z3.BoolVal(True), val_eq(rv.f[0], rf.f[0])))
                    q(name, p3, z3.And(*same) if same else z3.BoolVal(False), "the answer for a given point and tag never changes (it is the untouched server's answer)")
                q(name, p3, val_eq(s3.get(), before), "evaluation changes nothing (public key, OPRF key, puncturable key)")
    stats["wall_s"] = round(time.time() - t0, 1)
    stats.update(R.stats)
    return stats
