"""C07 obligations over the MIR encoding (Engine M)."""
import time
import z3
from . import mir, symex
from .symex import Agg, IV, BV_, Cell, Ref, Path, Ctx, Exec, Unsupported

P = 2**128 + 12451          # the modulus, written here independently of the repository
R = 2**192
M64 = 2**64


def limbs_val(ls):
    return ls[0] + ls[1] * M64 + ls[2] * M64 * M64


class Engine:
    def __init__(self, mir_text, log=print):
        self.items = mir.parse(mir_text)
        self.log = log
        self.queries = 0
        self.solver_s = 0.0
        self.results = []   # (name, status, detail)
        self.pending = []
        self.fn_paths = {}
        self.qdir = "/tmp/verif_mirsmt_queries"

    # ---- helpers -------------------------------------------------------------
    def item(self, name, byref=None):
        its = [i for i in self.items if i.kind == "fn" and i.name.endswith("::" + name)]
        if byref is not None:
            its = [i for i in its if all(t.strip().startswith("&") for _, t in i.params) == byref] or its
        if not its:
            raise Unsupported("no item " + name)
        if len(its) > 1:
            # method-call syntax resolves to an inherent method before a trait method:
            # if an item of that name exists outside the derive's impl span (the span
            # shared by most items), it shadows the derived one and is what callers get.
            import collections, re as _re
            span = lambda n: (_re.search(r"<impl at ([^>]*)>", n) or [None, ""])[1]
            cnt = collections.Counter(span(i.name) for i in self.items if i.kind == "fn")
            derive_span = cnt.most_common(1)[0][0]
            inh = [i for i in its if span(i.name) != derive_span]
            if inh:
                return inh[0]
        return its[0]

    def fp_sym(self, name, path, valid=True):
        ls = [z3.Int("%s%d" % (name, i)) for i in range(3)]
        for l in ls:
            path.side += [l >= 0, l < M64]
        if valid:
            path.side.append(limbs_val(ls) < P)
        return Agg("Fp", [Agg("array", [IV(l, "u64") for l in ls])]), ls

    @staticmethod
    def fp_limbs(agg):
        return [x.t for x in agg.f[0].f]

    # ---- solver back ends: SMT-LIB2 text -> /usr/bin/z3 and cvc5 -----------------
    def query(self, tag, assumptions, expect, names=None):
        """queue a query; expect in ('unsat','sat').  names: z3 consts whose model values
        are wanted if the answer is sat."""
        s = z3.Solver()
        s.add(*assumptions)
        txt = "(set-logic ALL)\n" + s.to_smt2()
        if names:
            import re as _re
            present = [str(n) for n in names if _re.search(r"\(declare-fun %s \(\)" % _re.escape(str(n)), txt)]
            if present:
                txt += "\n(get-value (%s))\n" % " ".join(present)
        self.pending.append({"tag": tag, "smt2": txt, "expect": expect})

    def flush(self, cap_s=120, jobs=16, grace_s=15):
        import concurrent.futures, hashlib, os, subprocess, tempfile
        qdir = self.qdir
        os.makedirs(qdir, exist_ok=True)

        def run1(q):
            h = hashlib.sha1(q["smt2"].encode()).hexdigest()[:12]
            f = os.path.join(qdir, "q_%s_%x.smt2" % (h, id(q)))  # unique per query object (identical queries run concurrently)
            with open(f, "w") as fh:
                fh.write(q["smt2"])
            cap = min(cap_s, 25) if q["expect"] == "sat" else cap_s
            t0 = time.time()
            procs = {}
            for name, cmd in (("z3", ["/usr/bin/z3", "-T:%d" % cap, f]),
                              ("cvc5", ["cvc5", "--lang", "smt2", "--produce-models", "--tlimit=%d" % (cap * 1000), f])):
                procs[name] = subprocess.Popen(cmd, stdout=subprocess.PIPE, stderr=subprocess.STDOUT, text=True, errors="replace")
            outs = {}
            first_done = None
            while len(outs) < len(procs):
                for name, p in procs.items():
                    if name in outs:
                        continue
                    if p.poll() is not None:
                        outs[name] = p.stdout.read().strip()
                        head = outs[name].splitlines()[0].strip() if outs[name] else ""
                        if head in ("sat", "unsat") and first_done is None:
                            first_done = time.time()
                now = time.time()
                # the other solver gets a grace period after the first definite answer
                if (first_done is not None and now - first_done > grace_s) or now - t0 > cap + 15:
                    for name, p in procs.items():
                        if name not in outs:
                            p.kill()
                            p.wait()
                            outs[name] = "timeout (cut %ds after the other solver answered)" % grace_s if first_done else "timeout"
                    break
                time.sleep(0.05)
            res = {}
            for name, out in outs.items():
                first = out.splitlines()[0].strip() if out else "empty"
                if first.startswith("timeout") or "interrupted by timeout" in first:
                    first = "timeout"
                errs = [l for l in out.splitlines() if "(error" in l]
                benign = ("model is not available", "cannot get value", "Cannot get value", "get-value")
                if errs and not (first == "unsat" and all(any(b in l for b in benign) for l in errs)):
                    # any other error line makes the answer inconclusive (an old z3 can drop
                    # an assertion it cannot parse and still answer)
                    first = "error"
                res[name] = (first, out[:2000])
            if all(v[0] == "empty" for v in res.values()) and not q.get("retried"):
                q["retried"] = True  # both solvers produced nothing (resource hiccup): once more
                return run1(q)
            q["answers"] = {k: v[0] for k, v in res.items()}
            q["raw"] = res
            q["wall_s"] = time.time() - t0
            q["file"] = f
            return q

        with concurrent.futures.ThreadPoolExecutor(max_workers=jobs) as ex:
            done = list(ex.map(run1, self.pending))
        self.pending = []
        for q in done:
            self.queries += 1
            self.solver_s += q["wall_s"]
            ans = set(q["answers"].values())
            if "sat" in ans and "unsat" in ans:
                q["verdict"] = "disagree"
            elif "error" in ans and not ({"sat", "unsat"} & ans):
                q["verdict"] = "error"
            elif "unsat" in ans:
                q["verdict"] = "unsat"
            elif "sat" in ans:
                q["verdict"] = "sat"
            else:
                q["verdict"] = "unknown"
        return done

    def prove_paths(self, name, res, posts, extra_side=(), inputs=None):
        """res: [(path, rv, frame)]; posts(path, rv, frame) -> list of (label, z3 Bool).
        Queued: per path a satisfiability witness (vacuity), every MIR assert
        obligation, every postcondition."""
        for k, (p, rv, fr) in enumerate(res):
            base = list(p.side) + list(extra_side)
            self.query((name, k, "path-feasible"), base + p.pc, "sat")
            for pc, cond, msg in p.oblig:
                self.query((name, k, msg), base + pc + [z3.Not(cond)], "unsat", inputs)
            for label, claim in posts(p, rv, fr):
                self.query((name, k, label), base + p.pc + [z3.Not(claim)], "unsat", inputs)
        self.fn_paths[name] = len(res)

    def run_fn(self, item, args, path, mul_hook=None, call_hook=None):
        ctx = Ctx(self.items, mul_hook=mul_hook, call_hook=call_hook)
        ex = Exec(ctx)
        return ex.run(item, args, path), ctx


# ---------------------------------------------------------------------------
# the obligations
# ---------------------------------------------------------------------------

def mk_mul_hook(table):
    """symbolic x symbolic limb products become shared opaque integers P_k with their
    range; identical operand pairs share one term (commutative)."""
    def hook(a, b, path):
        key = tuple(sorted([a.sexpr(), b.sexpr()]))
        if key not in table:
            v = z3.Int("P_%d" % len(table))
            table[key] = (v, a, b)
            path.side += [v >= 0, v <= (M64 - 1) * (M64 - 1)]
        return table[key][0]
    return hook


def product_sum(table, al, bl):
    tot = 0
    for i in range(3):
        for j in range(3):
            key = tuple(sorted([al[i].sexpr(), bl[j].sexpr()]))
            tot = tot + table[key][0] * (M64 ** (i + j))
    return tot


def out_self(fr, l="_1"):
    return Engine.fp_limbs(fr.cell(l).v.get())


def const_limbs(E, name):
    ex = Exec(Ctx(E.items))
    v = ex.const(name, Path())
    if isinstance(v, Ref):
        v = v.get()
    return [x.t for x in v.f[0].f]


def mul_summary_hook(ex, fn, args, path):
    """`mul_assign(&mut a, &b)` replaced by the contract proved for it by the
    mul_assign obligation: for a, b < p the result o satisfies o < p and
    o * 2^192 == a * b + K * p for some integer K >= 0 (products with a concrete
    operand are linear).  Outside the precondition the result is unconstrained."""
    if not fn.endswith("MulAssign<&Fp>>::mul_assign"):
        return None
    a_ref, b_ref = args
    al = [x.t for x in a_ref.get().f[0].f]
    bl = [x.t for x in b_ref.get().f[0].f]
    A, B = limbs_val(al), limbs_val(bl)
    if not (isinstance(A, int) or isinstance(B, int)):
        raise Unsupported("mul summary needs one concrete operand")
    ctx = ex.ctx
    o = [ctx.fresh("mulsum", "u64", path) for _ in range(3)]
    ctx.fresh_n += 1
    K = z3.Int("mulK!%d" % ctx.fresh_n)
    path.side.append(K >= 0)
    pre = z3.And(A < P, B < P) if not isinstance(A < P, bool) or not isinstance(B < P, bool) else z3.BoolVal(bool(A < P and B < P))
    path.side.append(z3.Implies(pre, z3.And(limbs_val(o) < P, limbs_val(o) * R == A * B + K * P)))
    path.trace.append(("mul_summary", K))
    a_ref.set(Agg("Fp", [Agg("array", [IV(x, "u64") for x in o])]))
    return Agg("tuple", [])


def run_all(E, log=print):
    """queue + discharge all C07 obligations; returns summary dict"""
    t0 = time.time()
    ground = []   # (name, ok, detail): closed formulas over constants parsed from the MIR

    def g(name, ok, detail=""):
        ground.append((name, bool(ok), detail))

    # ---- constants ---------------------------------------------------------
    try:
        mod = limbs_val(const_limbs(E, "share_ff::MODULUS_LIMBS"))
        rr = limbs_val(const_limbs(E, "share_ff::R"))
        r2 = limbs_val(const_limbs(E, "share_ff::R2"))
        inv = Exec(Ctx(E.items)).const("share_ff::INV", Path()).t
        two_inv = limbs_val(const_limbs(E, "share_ff::TWO_INV"))
        gen = limbs_val(const_limbs(E, "share_ff::GENERATOR"))
        rou = limbs_val(const_limbs(E, "share_ff::ROOT_OF_UNITY"))
        rou_inv = limbs_val(const_limbs(E, "share_ff::ROOT_OF_UNITY_INV"))
        delta = limbs_val(const_limbs(E, "share_ff::DELTA"))
        s_const = Exec(Ctx(E.items)).const("share_ff::S", Path()).t
        nbits = Exec(Ctx(E.items)).const("MODULUS_BITS", Path()).t
        shave = Exec(Ctx(E.items)).const("REPR_SHAVE_BITS", Path()).t
        felen = Exec(Ctx(E.items)).const("FIELD_ELEMENT_LEN", Path()).t
        rinv = pow(R, -1, P)
        val = lambda x: (x * rinv) % P
        g("MODULUS_LIMBS == 2^128+12451", mod == P, hex(mod))
        g("R == 2^192 mod p", rr == R % P)
        g("R2 == 2^384 mod p", r2 == (R * R) % P)
        g("INV * p == -1 mod 2^64", (inv * P) % M64 == M64 - 1)
        g("NUM_BITS == 129", nbits == 129 and P.bit_length() == 129)
        g("REPR_SHAVE_BITS == 63", shave == 63)
        g("FIELD_ELEMENT_LEN == 24", felen == 24)
        g("2 * TWO_INV == 1", (2 * val(two_inv)) % P == 1)
        q = (P - 1) // 2
        g("p - 1 == 2^S * t with t odd, S == 1", s_const == 1 and (P - 1) % 2 == 0 and q % 2 == 1)
        gv = val(gen)
        # p-1 = 2*q with q prime (number theory, assumption A-prime): g generates iff g^2 != 1 and g^q != 1
        g("MULTIPLICATIVE_GENERATOR generates the group (g^((p-1)/2) == -1, g^2 != 1)",
          pow(gv, q, P) == P - 1 and pow(gv, 2, P) != 1, "g=%d" % gv)
        g("MULTIPLICATIVE_GENERATOR is a quadratic non-residue", pow(gv, q, P) == P - 1)
        g("ROOT_OF_UNITY == g^t, a primitive 2^S-th root of unity (== -1)", val(rou) == pow(gv, q, P) and val(rou) == P - 1)
        g("ROOT_OF_UNITY * ROOT_OF_UNITY_INV == 1", (val(rou) * val(rou_inv)) % P == 1)
        g("DELTA == g^(2^S)", val(delta) == pow(gv, 2, P))
        zero = const_limbs(E, "Fp::ZERO")
        one = const_limbs(E, "Fp::ONE")
        g("ZERO == 0, ONE == R (value 1)", limbs_val(zero) == 0 and val(limbs_val(one)) == 1)
        for cn, internal in (("TWO_INV", two_inv), ("MULTIPLICATIVE_GENERATOR", gen), ("ROOT_OF_UNITY", rou),
                             ("ROOT_OF_UNITY_INV", rou_inv), ("DELTA", delta)):
            pub = limbs_val(const_limbs(E, "Fp::" + cn))
            g("published %s is the internal constant" % cn, pub == internal)
        cap = Exec(Ctx(E.items)).const("Fp::CAPACITY", Path()).t
        pubs = Exec(Ctx(E.items)).const("Fp::S", Path()).t
        pubbits = Exec(Ctx(E.items)).const("Fp::NUM_BITS", Path()).t
        g("CAPACITY == 128, published NUM_BITS == 129, published S == 1", cap == 128 and pubbits == 129 and pubs == 1)
    except Exception as e:  # noqa
        g("constants could be parsed", False, repr(e))
        mod = P

    inputs = [z3.Int("%s%d" % (n, i)) for n in ("a", "b") for i in range(3)]

    def sym_run(name, nargs, byref=None, mul=False, valid=True, byval=False):
        path = Path()
        a, al = E.fp_sym("a", path, valid)
        b, bl = E.fp_sym("b", path, valid)
        table = {}
        it = E.item(name, byref=byref)
        args = []
        for k, (_, ty) in enumerate(it.params[:nargs]):
            v = (a, b)[k]
            args.append(Ref(Cell(v)) if ty.strip().startswith("&") else v)
        res, ctx = E.run_fn(it, args, path, mul_hook=mk_mul_hook(table) if mul else None)
        return res, al, bl, table, ctx

    def guarded(name, f):
        try:
            f()
        except Exception as e:  # noqa
            import traceback
            E.results.append((name, "unsupported", repr(e)[:300], 0, None))
            log("    [UNSUPPORTED] %s: %r" % (name, e))

    def lin(name, spec, by="self"):
        def f():
            res, al, bl, _, _ = sym_run(name, 2, byref=True)
            A, B = limbs_val(al), limbs_val(bl)
            E.prove_paths(name, res, lambda p, rv, fr: [("value", limbs_val(out_self(fr)) == spec(A, B)),
                                                        ("canonical", limbs_val(out_self(fr)) < P)], inputs=inputs)
        guarded(name, f)

    lin("add_assign", lambda A, B: z3.If(A + B >= P, A + B - P, A + B))
    lin("sub_assign", lambda A, B: z3.If(A < B, A - B + P, A - B))

    def f_neg():
        res, al, bl, _, _ = sym_run("neg", 1)
        A = limbs_val(al)
        E.prove_paths("neg", res, lambda p, rv, fr: [("value", limbs_val(Engine.fp_limbs(rv)) == z3.If(A == 0, 0, P - A)),
                                                    ("canonical", limbs_val(Engine.fp_limbs(rv)) < P)], inputs=inputs)
    guarded("neg", f_neg)

    def f_double():
        res, al, bl, _, _ = sym_run("double", 1)
        A = limbs_val(al)
        E.prove_paths("double", res, lambda p, rv, fr: [("value", limbs_val(Engine.fp_limbs(rv)) == z3.If(2 * A >= P, 2 * A - P, 2 * A)),
                                                       ("canonical", limbs_val(Engine.fp_limbs(rv)) < P)], inputs=inputs)
    guarded("double", f_double)

    def f_cmp():
        res, al, bl, _, _ = sym_run("cmp_native", 2, valid=False)
        A, B = limbs_val(al), limbs_val(bl)
        def post(p, rv, fr):
            k = rv.kind
            return [("ordering", {"Less": A < B, "Equal": A == B, "Greater": A > B}[k])]
        E.prove_paths("cmp_native", res, post, inputs=inputs)
    guarded("cmp_native", f_cmp)

    def f_valid():
        res, al, bl, _, _ = sym_run("is_valid", 1, valid=False)
        A = limbs_val(al)
        def post(p, rv, fr):
            t = rv.t
            if isinstance(t, bool):
                return [("is_valid iff < p", (A < P) if t else (A >= P))]
            return [("is_valid iff < p", t == (A < P))]
        E.prove_paths("is_valid", res, post, inputs=inputs)
    guarded("is_valid", f_valid)

    def mont(name):
        def f():
            res, al, bl, table, _ = sym_run(name, 2 if name == "mul_assign" else 1, byref=True if name == "mul_assign" else None, mul=True)
            PS = product_sum(table, al, bl if name == "mul_assign" else al)
            def post(p, rv, fr):
                out = out_self(fr) if name == "mul_assign" else Engine.fp_limbs(rv)
                o = limbs_val(out)
                ks = [r for k, r in p.trace if k == "wrapping_mul"]
                if len(ks) != 3:
                    raise Unsupported("expected 3 Montgomery multipliers, got %d" % len(ks))
                K = ks[0] + ks[1] * M64 + ks[2] * M64 * M64
                return [("canonical", o < P),
                        ("out * 2^192 == a*b (mod p)", z3.Or(o * R == PS + K * P, o * R == PS + K * P - R * P))]
            # lemma: sum of the partial products == A*B <= (p-1)^2  (discharged separately below)
            E.prove_paths(name, res, post, extra_side=[PS <= (P - 1) * (P - 1)], inputs=inputs)
        guarded(name, f)
    mont("mul_assign")
    mont("square")

    # product lemma (true nonlinear arithmetic, no abstraction): A,B < p  =>  sum a_i b_j 2^(64(i+j)) == A*B <= (p-1)^2
    def f_lemma():
        al = [z3.Int("a%d" % i) for i in range(3)]
        bl = [z3.Int("b%d" % i) for i in range(3)]
        side = [z3.And(x >= 0, x < M64) for x in al + bl] + [limbs_val(al) < P, limbs_val(bl) < P]
        ps = sum(al[i] * bl[j] * (M64 ** (i + j)) for i in range(3) for j in range(3))
        E.query(("product-lemma", 0, "expansion"), side + [ps != limbs_val(al) * limbs_val(bl)], "unsat")
        A, B = z3.Int("A"), z3.Int("B")
        E.query(("product-lemma", 0, "bound"), [A >= 0, B >= 0, A < P, B < P, A * B > (P - 1) * (P - 1)], "unsat")
        E.fn_paths["product-lemma"] = 1
    guarded("product-lemma", f_lemma)

    # to_repr: bytes encode t with t*2^192 == limbs (mod p), t < p, little-endian
    def f_to_repr():
        path = Path()
        a, al = E.fp_sym("a", path)
        it = E.item("to_repr")
        res, ctx = E.run_fn(it, [Ref(Cell(a))], path)
        A = limbs_val(al)
        def post(p, rv, fr):
            bs = [x.t for x in rv.f[0].f]
            if len(bs) != 24:
                raise Unsupported("repr length %d" % len(bs))
            t = sum(b * (1 << (8 * k)) for k, b in enumerate(bs))
            ks = [r for k, r in p.trace if k == "wrapping_mul"]
            K = ks[0] + ks[1] * M64 + ks[2] * M64 * M64
            return [("canonical little-endian value < p", t < P),
                    ("t * 2^192 == limbs (mod p)", z3.Or(t * R == A + K * P, t * R == A + K * P - R * P))]
        E.prove_paths("to_repr", res, post, inputs=inputs)
    guarded("to_repr", f_to_repr)

    # from_repr: Some iff int_le(bytes) < p ; value v with v*2^192 == int_le(bytes)*R2 (mod p)
    def f_from_repr():
        path = Path()
        bs = [z3.Int("x%d" % i) for i in range(24)]
        for b in bs:
            path.side += [b >= 0, b < 256]
        repr_ = Agg("FpRepr", [Agg("array", [IV(b, "u8") for b in bs])])
        table = {}
        it = E.item("from_repr")
        res, ctx = E.run_fn(it, [repr_], path, call_hook=mul_summary_hook)
        L = sum(b * (1 << (8 * k)) for k, b in enumerate(bs))
        r2l = const_limbs(E, "share_ff::R2")
        def post(p, rv, fr):
            v, choice = rv.f
            c = choice.f[0].t
            o = limbs_val(Engine.fp_limbs(v))
            K = [r for k, r in p.trace if k == "mul_summary"][0]
            r2 = limbs_val(r2l)
            return [("accepts iff integer < p", (c == 1) == (L < P)),
                    ("choice is a bit", z3.Or(c == 0, c == 1)),
                    ("value canonical", z3.Implies(L < P, o < P)),
                    ("value is the Montgomery form (mul contract applied to (limbs, R2))", z3.Implies(L < P, o * R == L * r2 + K * P))]
        E.prove_paths("from_repr", res, post, inputs=bs)
    guarded("from_repr", f_from_repr)

    # from(u64)
    def f_from_u64():
        path = Path()
        v = z3.Int("v")
        path.side += [v >= 0, v < M64]
        its = [i for i in E.items if i.kind == "fn" and i.name.endswith("::from") and i.params and i.params[0][1] == "u64"]
        res, ctx = E.run_fn(its[0], [IV(v, "u64")], path, call_hook=mul_summary_hook)
        r2 = limbs_val(const_limbs(E, "share_ff::R2"))
        def post(p, rv, fr):
            o = limbs_val(Engine.fp_limbs(rv))
            K = [r for k, r in p.trace if k == "mul_summary"][0]
            return [("canonical", o < P), ("Montgomery form of v (mul contract applied to ([v,0,0], R2))", o * R == v * r2 + K * P)]
        E.prove_paths("from_u64", res, post, inputs=[v])
    guarded("from_u64", f_from_u64)

    # algebraic closure lemmas used to turn the congruences into the stated meaning
    def f_alg():
        t, L, K = z3.Int("t"), z3.Int("L"), z3.Int("K")
        # R invertible mod p: (t - L) * R == K * p, 0 <= t, L < p  =>  t == L
        E.query(("algebra", 0, "R is invertible mod p: t*R == L*R (mod p) => t == L"),
                [t >= 0, L >= 0, t < P, L < P, (t - L) * R == K * P, t != L], "unsat")
        E.fn_paths["algebra"] = 1
    guarded("algebra", f_alg)

    # invert / sqrt: exponent of the addition chain
    def chain(name, want_exp):
        def f():
            it = E.item(name)
            def hook(ex, fn, args, path):
                def ev(x):
                    if isinstance(x, Ref):
                        x = x.get()
                    return x.f[0].t
                if fn.endswith("Field>::square"):
                    return Agg("FpPow", [IV(2 * ev(args[0]), "exp")])
                if re_mul.match(fn):
                    return Agg("FpPow", [IV(ev(args[0]) + ev(args[1]), "exp")])
                if fn.endswith("Field>::is_zero"):
                    return Agg("Choice", [IV(z3.Int("self_is_zero"), "u8")])
                if fn.endswith("ConstantTimeEq>::ct_eq"):
                    return Agg("Choice", [IV(z3.Int("ct_eq_%d_%d" % (ev(args[0]), ev(args[1]))), "u8")])
                return None
            import re as _re
            re_mul = _re.compile(r"^<Fp as Mul(<&Fp>)?>::mul$")
            res, ctx = E.run_fn(it, [Ref(Cell(Agg("FpPow", [IV(1, "exp")])))], Path(), call_hook=hook)
            if len(res) != 1:
                raise Unsupported("chain forked")
            rv = res[0][1]
            e = rv.f[0].f[0].t
            flag = rv.f[1].f[0].t
            ok = (e == want_exp)
            detail = "exponent of the chain = %d (%s)" % (e, "== expected" if ok else "!= expected %d" % want_exp)
            g("%s computes self^(%s)" % (name, "p-2" if name == "invert" else "(p+1)/4"), ok, detail)
            if name == "invert":
                z = z3.Int("self_is_zero")
                sv = z3.Solver()
                sv.add(z >= 0, z <= 1, flag != 1 - z)
                fok = sv.check() == z3.unsat
                want_flag = "1 - self_is_zero (None exactly for zero)"
            else:
                fok = str(flag) in ("ct_eq_%d_1" % (2 * want_exp), "ct_eq_1_%d" % (2 * want_exp))
                want_flag = "ct_eq(result^2, self) (Some exactly when the candidate squares to the input)"
            g("%s flag" % name, bool(fok), "is_some flag term: %s; required: %s" % (flag, want_flag))
            return str(flag)
        guarded(name, f)
    chain("invert", P - 2)
    chain("sqrt", (P + 1) // 4)

    done = E.flush()
    # ---- collect ----------------------------------------------------------------
    by_fn = {}
    for q in done:
        fn = q["tag"][0]
        by_fn.setdefault(fn, []).append(q)
    summary = []
    for fn, qs in by_fn.items():
        bad = []
        for q in qs:
            exp = q["expect"]
            v = q["verdict"]
            if exp == "sat":
                # path-feasibility witness: 'unsat' = infeasible path (harmless: the case
                # split of the interpreter is complete); 'unknown' is advisory as long as
                # some path of the function is shown feasible (see below)
                continue
            else:
                if v == "unsat":
                    continue
                bad.append((q, "fail" if v == "sat" else "inconclusive"))
        feas = sum(1 for q in qs if q["expect"] == "sat" and q["verdict"] == "sat")
        status = "pass"
        if any(k == "fail" for _, k in bad):
            status = "fail"
        elif bad:
            status = "inconclusive"
        nq_unsat = sum(1 for q in qs if q["expect"] == "unsat")
        if status == "pass" and nq_unsat and feas == 0 and fn not in ("product-lemma", "algebra"):
            status = "inconclusive"  # vacuous: no feasible path
        summary.append({"fn": fn, "status": status, "queries": len(qs), "feasible_paths": feas,
                        "solver_s": round(sum(q["wall_s"] for q in qs), 2),
                        "bad": [(q["tag"], k, q["answers"], q["raw"]) for q, k in bad]})
    for name, st, detail, _, _ in E.results:
        if st == "unsupported":
            summary.append({"fn": name, "status": "inconclusive", "queries": 0, "feasible_paths": 0, "solver_s": 0,
                            "bad": [((name, 0, "translator"), "inconclusive", {}, {"note": detail})]})
    return {"summary": summary, "ground": ground, "wall_s": time.time() - t0,
            "queries": E.queries, "solver_s": E.solver_s}
