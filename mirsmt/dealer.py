"""C02 / C06: `Sharks::dealer_rng` -> `random_polynomial` from the MIR, threshold symbolic.

The threshold T is one symbolic u32.  The secret has a concrete number of 24-byte elements;
`from_repr` is opaque (accepting), `Fp::random` returns the n-th opaque draw.  The counted
loop of `random_polynomial` runs over a *symbolic* range: `Range::next` forks on
`cur < end`; the first N iterations are explored, the path that would continue after N is cut
and its condition kept.  Claims, for every u32 T:

  * a path that leaves the loop after j draws has j == max(T,1) - 1   (degree exactly T-1:
    the threshold reaches the loop bound at its full 32-bit width);
  * the cut path (more than N-1 draws) requires T > N;
  * each polynomial's constant term is the secret element and each other coefficient is its
    own draw, in draw order.

Outside: more than N draws per element (the loop body is the same MIR blocks for every
iteration and the range end is loop-invariant, so the exit condition for later iterations is
the one checked for the first N)."""
import re
import z3
from . import symex
from .symex import Agg, IV, BV_, Cell, Ref, Path, Ctx, Exec, Iter_, Unsupported, ForkRequest, copy_val

N_ITER = 4


def deref(v):
    while isinstance(v, Ref):
        v = v.get()
    return v


def run_dealer(E, nel, n_iter=N_ITER):
    path = Path()
    T = z3.Int("T")
    path.side += [T >= 0, T < 2**32]
    secret = Agg("slice", [IV(z3.Int("s%d" % i), "u8") for i in range(24 * nel)])
    for b in secret.f:
        path.side += [b.t >= 0, b.t < 256]
    sharks = Agg("Sharks", [IV(T, "u32")])
    state = {"draws": 0, "cuts": []}

    def hook(ex, fn, args, p):
        if fn.endswith(" as IntoIterator>::into_iter") and isinstance(args[0], Agg) and args[0].kind == "Range":
            lo, hi = args[0].f
            if lo.conc() and hi.conc():
                return None
            if not lo.conc():
                raise Unsupported("symbolic range start")
            return Agg("SymRange", [IV(lo.t, lo.ty), hi])
        if fn.endswith(" as Iterator>::next"):
            it = args[0].get()
            if isinstance(it, Agg) and it.kind == "SymRange":
                cur, end = it.f[0].t, it.f[1].t
                it.f[0] = IV(cur + 1, it.f[0].ty)
                if cur - 1 >= n_iter:
                    # cut: keep the condition under which the loop would go on
                    state["cuts"].append((list(p.pc), cur < end, cur))
                    raise ForkRequest([(z3.Not(cur < end), Agg("None", []))])
                raise ForkRequest([(cur < end, Agg("Some", [IV(cur, "usize")])), (z3.Not(cur < end), Agg("None", []))])
            return None
        m = re.match(r"^<(usize|u64|u32) as From<(u8|u16|u32)>>::from$", fn)
        if m and isinstance(args[0], IV):
            return IV(args[0].t, m.group(1))
        if fn.startswith("<[u8] as Index<") and fn.endswith("Range<usize>>>::index"):
            sl = deref(args[0])
            lo, hi = args[1].f
            if not (lo.conc() and hi.conc()):
                raise Unsupported("symbolic chunk bounds")
            return Ref(Cell(Agg("slice", sl.f[lo.t:hi.t])))
        if "TryInto<[u8; 24]>>::try_into" in fn:
            return Agg("Ok", [Agg("array", list(deref(args[0]).f))])
        if fn.endswith("::expect"):
            r = args[0]
            if r.kind != "Ok":
                raise Unsupported("expect on Err")
            return r.f[0]
        if fn.endswith("PrimeField>::from_repr"):
            return Agg("CtOption", [Agg("Fp", [Agg("secret", [copy_val(x) for x in args[0].f[0].f])]), BV_(True)])
        if fn.endswith("CtOption::<Fp>::is_none"):
            return BV_(not deref(args[0]).f[1].t)
        if fn == "<Choice as Into<bool>>::into":
            return args[0]
        if fn.endswith("CtOption::<Fp>::unwrap"):
            return deref(args[0]).f[0]
        if "ff::Field>::random" in fn:
            state["draws"] += 1
            return Agg("Fp", [Agg("draw", [IV(state["draws"], "usize")])])
        if "::with_capacity" in fn:
            return Agg("Vec", [])
        if fn == "get_evaluator":
            return Agg("Evaluator", [args[0]])
        return None
    it = [i for i in E.items if i.kind == "fn" and i.name.endswith("::dealer_rng")]
    if len(it) != 1:
        raise Unsupported("dealer_rng: %d candidates" % len(it))
    ctx = Ctx(E.items, call_hook=hook)
    res = Exec(ctx).run(it[0], [Ref(Cell(sharks)), Ref(Cell(secret)), Agg("rng", [])], path)
    return res, T, state, secret


def obligations(E, nels=(1, 2), n_iter=N_ITER):
    cases = 0
    for nel in nels:
        res, T, state, secret = run_dealer(E, nel, n_iter)
        name = "dealer[elements=%d]" % nel
        want = z3.If(T >= 1, T - 1, 0)

        def post(p, rv, fr, nel=nel):
            out = []
            if rv.kind != "Ok":
                out.append(("dealing an in-range secret succeeds", z3.BoolVal(False)))
                return out
            polys = deref(rv.f[0].f[0]).f
            out.append(("one polynomial per secret element", z3.BoolVal(len(polys) == nel)))
            seen = []
            for e, poly in enumerate(polys):
                coeffs = deref(poly).f
                draws = [c for c in coeffs if c.f[0].kind == "draw"]
                secs = [c for c in coeffs if c.f[0].kind == "secret"]
                out.append(("element %d: the number of drawn coefficients is max(T,1)-1 for every u32 threshold T (degree exactly T-1)" % e,
                            want == len(draws)))
                ok_sec = len(secs) == 1 and [str(x.t) for x in secs[0].f[0].f] == ["s%d" % i for i in range(24 * e, 24 * e + 24)]
                out.append(("element %d: exactly one coefficient is the secret element, at one end of the list" % e,
                            z3.BoolVal(ok_sec and (coeffs[0] is secs[0] or coeffs[-1] is secs[0]))))
                ids = [c.f[0].f[0].t for c in draws]
                out.append(("element %d: every other coefficient is a separate draw, in draw order" % e,
                            z3.BoolVal(ids == sorted(ids) and len(set(ids)) == len(ids) and not (set(ids) & set(seen)))))
                seen += ids
            return out
        E.prove_paths(name, res, post, inputs=[T])
        for k, (pc, cont, cur) in enumerate(state["cuts"]):
            base = [T >= 0, T < 2**32]
            E.query((name + "-cut", k, "the loop goes on after %d draws only if T > %d" % (cur - 1, cur)), base + pc + [cont, z3.Not(T > cur)], "unsat", [T])
        cases += 1
    return cases
