"""Symbolic executor for the MIR subset of star-sharks' derived field code.

Machine integers are *mathematical integers with range invariants* (every value of
type uN satisfies 0 <= v < 2^N by construction); wrap-around is modelled explicitly
with fresh quotient variables, so mod-2^k semantics is kept (never "ints standing in
for words").  Symbolic x symbolic limb products go through `Ctx.mul`, which the
caller can make opaque (shared uninterpreted terms).  MIR `assert` terminators
(overflow, index bounds) become proof obligations.
"""
import copy
import re
import z3

from . import mir

BITS = {"u8": 8, "u16": 16, "u32": 32, "u64": 64, "u128": 128, "usize": 64,
        "i8": 8, "i16": 16, "i32": 32, "i64": 64, "i128": 128, "isize": 64, "bool": 1}


class Unsupported(Exception):
    pass


class IV:
    """integer value: term is a python int or z3 Int expr; ty is the Rust type name"""
    __slots__ = ("t", "ty")

    def __init__(self, t, ty):
        self.t = t
        self.ty = ty

    def conc(self):
        return isinstance(self.t, int)

    def __repr__(self):
        return "IV(%s:%s)" % (self.t, self.ty)


class BV_:
    """boolean value (python bool or z3 Bool)"""
    __slots__ = ("t",)

    def __init__(self, t):
        self.t = t

    def conc(self):
        return isinstance(self.t, bool)

    def __repr__(self):
        return "B(%s)" % (self.t,)


class Agg:
    """tuple / array / struct / enum variant"""
    __slots__ = ("kind", "f")

    def __init__(self, kind, f):
        self.kind = kind
        self.f = f

    def __repr__(self):
        return "%s%s" % (self.kind, self.f)


class Cell:
    __slots__ = ("v",)

    def __init__(self, v=None):
        self.v = v


class Ref:
    __slots__ = ("cell", "path")

    def __init__(self, cell, path=()):
        self.cell = cell
        self.path = tuple(path)

    def get(self):
        v = self.cell.v
        for p in self.path:
            v = v.f[p]
        return v

    def set(self, val):
        if not self.path:
            self.cell.v = val
            return
        v = self.cell.v
        for p in self.path[:-1]:
            v = v.f[p]
        v.f[self.path[-1]] = val

    def sub(self, p):
        return Ref(self.cell, self.path + (p,))


class IteRef:
    """a reference that is `a` under cond and `b` otherwise (result of merging a diamond)"""
    __slots__ = ("cond", "a", "b")

    def __init__(self, cond, a, b):
        self.cond, self.a, self.b = cond, a, b

    def get(self):
        return ite_val(self.cond, self.a.get(), self.b.get())

    def sub(self, p):
        return IteRef(self.cond, self.a.sub(p), self.b.sub(p))

    def set(self, val):
        raise Unsupported("write through a merged reference")


# fail-closed budgets of one interpreter context (a change that makes the code explode is refused,
# not followed until memory runs out)
MAX_PATHS = 20000
MAX_BLOCKS = 3000000


class ForkRequest(Exception):
    """raised by a library model whose result depends on a symbolic condition:
    alts = [(z3 cond, value)] — the interpreter forks, one path per alternative"""

    def __init__(self, alts):
        Exception.__init__(self, "fork")
        self.alts = alts


class Iter_:
    """slice iterator / zip / rev with concrete length: a python list of items"""
    __slots__ = ("items",)

    def __init__(self, items):
        self.items = list(items)


class Path:
    def __init__(self):
        self.pc = []          # z3 Bools assumed on this path
        self.side = []        # range / definitional constraints (always true)
        self.oblig = []       # (pc_snapshot, cond, message)
        self.trace = []

    def clone(self):
        p = Path()
        p.pc = list(self.pc)
        p.side = list(self.side)
        p.oblig = list(self.oblig)
        p.trace = list(self.trace)
        return p


class Ctx:
    def __init__(self, items, mul_hook=None, call_hook=None, prune=True):
        self.items = items
        self.byname = mir.index(items)
        self.fresh_n = 0
        self.mul_hook = mul_hook
        self.call_hook = call_hook
        self.prune = prune
        self.merge_diamonds = False
        self.const_cache = {}
        self.stats = {"forks": 0, "calls": 0, "stmts": 0}

    def fresh(self, name, ty, path):
        self.fresh_n += 1
        v = z3.Int("%s!%d" % (name, self.fresh_n))
        path.side.append(v >= 0)
        path.side.append(v < (1 << BITS[ty]))
        return v

    def fresh_range(self, name, hi, path):
        self.fresh_n += 1
        v = z3.Int("%s!%d" % (name, self.fresh_n))
        path.side.append(v >= 0)
        path.side.append(v < hi)
        return v

    def mul(self, a, b, path):
        if isinstance(a, int) or isinstance(b, int):
            return a * b
        if self.mul_hook:
            return self.mul_hook(a, b, path)
        return a * b

    # ---- item lookup -------------------------------------------------------
    def find_fn(self, name, nargs=None, argtys=None):
        """resolve a call target text to an Item of this crate (or None)"""
        cands = []
        name = re.sub(r"::<[^:]*>$", "", name)      # generic instantiation suffix `f::<T>`
        if name.endswith(">") and not name.startswith("<"):
            # suffix with paths inside: strip the balanced trailing `::<...>`
            depth = 0
            for i in range(len(name) - 1, -1, -1):
                if name[i] == ">":
                    depth += 1
                elif name[i] == "<":
                    depth -= 1
                    if depth == 0:
                        if name[:i].endswith("::"):
                            name = name[:i - 2]
                        break
        last = name.split("::")[-1]
        last = re.sub(r"::<.*$", "", last)
        for it in self.items:
            if it.kind != "fn":
                continue
            if it.name.split("::")[-1] == last and (nargs is None or len(it.params) == nargs):
                cands.append(it)
        if argtys and len(cands) > 1:
            c2 = [c for c in cands if all(match_ty(pt, at) for (_, pt), at in zip(c.params, argtys))]
            if c2:
                cands = c2
        return cands


def match_ty(pt, at):
    if at is None:
        return True
    return pt.replace("share_ff::", "").replace(" ", "") == at.replace("share_ff::", "").replace(" ", "")


# ---------------------------------------------------------------------------
# text helpers
# ---------------------------------------------------------------------------

def split_top(s, sep=","):
    out, depth, cur = [], 0, ""
    i = 0
    while i < len(s):
        ch = s[i]
        if ch in "([{<":
            # '<' only counts as bracket in type contexts; treat conservatively
            depth += 1
        elif ch in ")]}>":
            if ch == ">" and i > 0 and s[i - 1] in "-=":
                pass  # '->' / '=>'
            else:
                depth -= 1
        if ch == sep and depth == 0:
            out.append(cur.strip())
            cur = ""
        else:
            cur += ch
        i += 1
    if cur.strip():
        out.append(cur.strip())
    return out


def match_paren(s, i):
    """s[i] == '(' -> index of matching ')'"""
    depth = 0
    j = i
    while j < len(s):
        if s[j] in "([":
            depth += 1
        elif s[j] in ")]":
            depth -= 1
            if depth == 0:
                return j
        j += 1
    raise Unsupported("unbalanced: " + s)


class Frame:
    def __init__(self, item):
        self.item = item
        self.loc = {}  # local -> Cell
        self.bb = None
        self.pending_dst = None
        self.pending_bb = None

    def __deepcopy__(self, memo):
        f = Frame(self.item)  # items are immutable: share
        memo[id(self)] = f
        f.loc = copy.deepcopy(self.loc, memo)
        f.bb, f.pending_dst, f.pending_bb = self.bb, self.pending_dst, self.pending_bb
        return f

    def cell(self, l):
        c = self.loc.get(l)
        if c is None:
            c = Cell(None)
            self.loc[l] = c
        return c


class Exec:
    """Executes one Item on given argument values, forking on symbolic branches.
    run() returns a list of (Path, return value)."""

    def __init__(self, ctx):
        self.ctx = ctx

    # ---- places ----------------------------------------------------------
    def place(self, fr, s):
        """-> Ref for place text s"""
        s = s.strip()
        # suffix index: P[_i] or P[N of M]
        if s.endswith("]") and not s.startswith("["):
            k = s.rfind("[")
            # make sure bracket belongs to an index (balanced tail)
            base, idx = s[:k], s[k + 1:-1]
            if base and (base.endswith(")") or re.match(r"^_\d+$", base) or base.endswith("]")):
                r = self.place(fr, base)
                m = re.match(r"^(\d+) of (\d+)$", idx)
                if m:
                    return r.sub(int(m.group(1)))
                iv = fr.cell(idx).v
                if not (isinstance(iv, IV) and iv.conc()):
                    raise Unsupported("symbolic index " + s)
                return r.sub(iv.t)
        if re.match(r"^_\d+$", s):
            return Ref(fr.cell(s))
        if s.startswith("(") and match_paren(s, 0) == len(s) - 1:
            inner = s[1:-1].strip()
            if inner.startswith("*"):
                r = self.place(fr, inner[1:])
                v = r.get()
                if not isinstance(v, (Ref, IteRef)):
                    raise Unsupported("deref of non-ref %r in %s" % (v, s))
                return v
            # (P as Variant)
            m = re.match(r"^(.*) as (\w+)$", inner)
            if m and not re.search(r"\.\d+: ", inner[len(m.group(1)):]):
                r = self.place(fr, m.group(1))
                return r  # variant payload fields live directly in Agg.f
            # (P.N: type)
            # find the ".N: " that belongs to the top-level
            depth = 0
            for i, ch in enumerate(inner):
                if ch in "([":
                    depth += 1
                elif ch in ")]":
                    depth -= 1
                elif ch == "." and depth == 0:
                    m = re.match(r"^\.(\d+): ", inner[i:])
                    if m:
                        r = self.place(fr, inner[:i])
                        return r.sub(int(m.group(1)))
            raise Unsupported("place " + s)
        raise Unsupported("place " + s)

    # ---- constants ---------------------------------------------------------
    def const(self, txt, path):
        txt = txt.strip()
        m = re.match(r"^(-?\d+)_(\w+)$", txt)
        if m:
            return IV(int(m.group(1)), m.group(2))
        if txt == "true":
            return BV_(True)
        if txt == "false":
            return BV_(False)
        if txt == "()":
            return Agg("tuple", [])
        if txt.startswith('"') and txt.endswith('"'):
            return Agg("str", [txt[1:-1]])
        if txt.startswith("ZeroSized:"):
            return Agg("closure", [])
        if txt == "RangeFull":
            return Agg("RangeFull", [])
        m = re.match(r"^(u8|u16|u32|u64|u128|usize)::MAX$", txt) or re.match(r"^core::num::<impl (u8|u16|u32|u64|u128|usize)>::MAX$", txt)
        if m:
            return IV((1 << BITS[m.group(1)]) - 1, m.group(1))
        # named constant of this crate
        key = txt
        if key in self.ctx.const_cache:
            return copy.deepcopy(self.ctx.const_cache[key])
        it = self.find_const(txt)
        if it is None:
            if re.match(r"^[A-Za-z_][\w:]*$", txt) and "::" in txt and getattr(self.ctx, "opaque_consts", False):
                return Agg("ExtConst", [txt])   # a constant of another crate: opaque token
            raise Unsupported("const " + txt)
        if it.simple_const is not None:
            v = self.const(it.simple_const, path)
        else:
            res = Exec(self.ctx).run(it, [], Path())
            if len(res) != 1:
                raise Unsupported("const with branches " + txt)
            v = res[0][1]
        self.ctx.const_cache[key] = v
        return copy.deepcopy(v)

    def find_const(self, txt):
        t = txt.replace("share_ff::", "")
        t = re.sub(r"<(Fp) as [^>]*>", r"\1", t)          # <Fp as Trait>::X -> Fp::X
        t = re.sub(r"<impl at [^>]*>", "Fp", t)
        cands = []
        for it in self.ctx.items:
            if it.kind != "const":
                continue
            n = it.name.replace("share_ff::", "")
            n = re.sub(r"<impl at [^>]*>", "Fp", n)
            if n == t:
                cands.append(it)
        if not cands:
            # promoted[..] of a trait method: match by suffix "method::promoted[k]"
            m = re.search(r"(\w+)::(promoted\[\d+\])$", t)
            if m:
                for it in self.ctx.items:
                    if it.kind == "const" and it.name.endswith("%s::%s" % (m.group(1), m.group(2))):
                        cands.append(it)
            else:
                last = t.split("::")[-1]
                for it in self.ctx.items:
                    if it.kind == "const" and it.name.split("::")[-1] == last:
                        cands.append(it)
        if not cands:
            # generic: the definition's path after its `<impl at ..>` segment is a suffix of the use
            for it in self.ctx.items:
                if it.kind == "const" and ">::" in it.name:
                    tl = it.name.split(">::", 1)[1]
                    if txt == tl or txt.endswith("::" + tl):
                        cands.append(it)
        if not cands:
            return None
        if len(cands) > 1:
            # several promoted[k] with the same method name (e.g. sub_assign by ref / by value):
            # they are identical by construction of the derive; pick the one whose type fits
            return cands[0]
        return cands[0]

    # ---- operands / rvalues ---------------------------------------------------
    def operand(self, fr, s, path):
        s = s.strip()
        if s.startswith("no_retag "):
            s = s[9:]
        if s.startswith("copy "):
            v = self.place(fr, s[5:]).get()
            return copy_val(v)
        if s.startswith("move "):
            return self.place(fr, s[5:]).get()
        if s.startswith("const "):
            return self.const(s[6:], path)
        raise Unsupported("operand " + s)

    def rvalue(self, fr, s, path, dest_ty=None):
        s = s.strip()
        ctx = self.ctx
        if s.startswith("no_retag "):
            s = s[9:]
        if s.startswith("PtrMetadata("):
            v = self.operand(fr, s[len("PtrMetadata("):-1], path)
            tgt = v.get() if isinstance(v, (Ref, IteRef)) else v
            return IV(len(tgt.f), "usize")
        if s.startswith("{closure@"):
            k = s.index("} {") if "} {" in s else -1
            fields = []
            if k > 0:
                body = s[k + 3:].rstrip("}").strip()
                for part in split_top(body):
                    if ": " in part:
                        fields.append(self.operand(fr, part.split(": ", 1)[1], path))
            return Agg("closure", fields)
        if s.startswith(("copy ", "move ", "const ")):
            # cast?
            m = re.match(r"^(.*) as (.*?) \((\w+)(?:\(.*\))?\)$", s)
            if m:
                v = self.operand(fr, m.group(1), path)
                kind = m.group(3)
                if kind in ("PointerCoercion", "PtrToPtr", "Transmute"):
                    return v
                if kind in ("IntToInt",):
                    return self.int_cast(v, m.group(2).strip(), path)
                raise Unsupported("cast " + s)
            return self.operand(fr, s, path)
        if s.startswith("&"):
            t = s[1:].strip()
            for pre in ("mut ", "raw const ", "raw mut "):
                if t.startswith(pre):
                    t = t[len(pre):]
            return self.place(fr, t)
        if s.startswith("[") and s.endswith("]"):
            inner = s[1:-1]
            m = re.match(r"^(.*); (\d+)$", inner)
            if m and not split_top(inner)[1:]:
                v = self.operand(fr, m.group(1), path)
                return Agg("array", [copy_val(v) for _ in range(int(m.group(2)))])
            return Agg("array", [self.operand(fr, x, path) for x in split_top(inner)])
        if s.startswith("(") and s.endswith(")"):
            return Agg("tuple", [self.operand(fr, x, path) for x in split_top(s[1:-1])])
        m = re.match(r"^(\w+)\((.*)\)$", s)
        if m and m.group(1) in BINOPS:
            a, b = [self.operand(fr, x, path) for x in split_top(m.group(2))]
            return self.binop(m.group(1), a, b, path)
        if m and m.group(1) in ("Not", "Neg"):
            a = self.operand(fr, m.group(2), path)
            if isinstance(a, BV_):
                return BV_((not a.t) if a.conc() else z3.Not(a.t))
            raise Unsupported("unop " + s)
        ms = re.match(r"^([\w:<>, &\[\]]+?) \{ (.*) \}$", s)
        if ms and ": " in ms.group(2):
            name = re.sub(r"::<.*$", "", ms.group(1)).split("::")[-1]
            fields = []
            for part in split_top(ms.group(2)):
                k, v = part.split(": ", 1)
                fields.append(self.operand(fr, v, path))
            return Agg(name, fields)
        if s.startswith("discriminant("):
            v = self.place(fr, s[len("discriminant("):-1]).get()
            return IV(DISCR[v.kind], "isize")
        if m:  # ADT constructor: Fp(move _1) / Some(..)
            name = m.group(1)
            return Agg(name, [self.operand(fr, x, path) for x in split_top(m.group(2))])
        # enum variant constructors: `<path with arbitrary generics>::Variant(args)` / `...::Variant`
        if s.endswith(")"):
            depth, k = 0, len(s) - 1
            while k >= 0:
                if s[k] == ")":
                    depth += 1
                elif s[k] == "(":
                    depth -= 1
                    if depth == 0:
                        break
                k -= 1
            head, inner = s[:k], s[k + 1:-1]
            mv = re.search(r"::(\w+)$", head)
            if mv and mv.group(1) in DISCR:
                return Agg(mv.group(1), [self.operand(fr, x, path) for x in split_top(inner)] if inner.strip() else [])
        mv = re.search(r"::(\w+)$", s)
        if mv and mv.group(1) in DISCR and re.match(r"^[\w:<>, &\[\]()']+$", s):
            return Agg(mv.group(1), [])
        if re.match(r"^\w+$", s) and s in DISCR:
            return Agg(s, [])
        raise Unsupported("rvalue " + s)

    def int_cast(self, v, ty, path):
        if isinstance(v, BV_):
            return IV(int(v.t) if v.conc() else z3.If(v.t, 1, 0), ty)
        if BITS[ty] >= BITS[v.ty] or v.ty.startswith("i"):
            if v.conc():
                return IV(v.t % (1 << BITS[ty]) if v.t < 0 or BITS[ty] < BITS[v.ty] else v.t, ty)
            return IV(v.t, ty)
        # narrowing: v = q*2^w + r
        w = BITS[ty]
        if v.conc():
            return IV(v.t % (1 << w), ty)
        r = self.ctx.fresh("trunc", ty, path)
        q = self.ctx.fresh_range("truncq", 1 << (BITS[v.ty] - w), path)
        path.side.append(v.t == q * (1 << w) + r)
        return IV(r, ty)

    def binop(self, op, a, b, path):
        ctx = self.ctx
        if op in ("Eq", "Ne") and isinstance(a, BV_):
            t = (a.t == b.t)
            if isinstance(t, bool):
                return BV_(t if op == "Eq" else not t)
            return BV_(t if op == "Eq" else z3.Not(t))
        if op in CMP:
            if a.conc() and b.conc():
                return BV_(CMP[op](a.t, b.t))
            return BV_(CMP[op](a.t, b.t))
        w = BITS[a.ty]
        M = 1 << w
        if op in ("AddWithOverflow", "SubWithOverflow", "MulWithOverflow"):
            if op == "AddWithOverflow":
                s = a.t + b.t
            elif op == "SubWithOverflow":
                s = a.t - b.t
            else:
                s = ctx.mul(a.t, b.t, path)
            if isinstance(s, int):
                ov = not (0 <= s < M)
                return Agg("tuple", [IV(s % M, a.ty), BV_(ov)])
            ov = z3.Or(s < 0, s >= M)
            # wrapped result only matters if execution continues past the overflow assert;
            # keep it exact with a fresh quotient
            r = ctx.fresh("wrap", a.ty, path)
            q = z3.Int("wq!%d" % ctx.fresh_n)
            path.side.append(s == r + q * M)
            return Agg("tuple", [IV(r, a.ty), BV_(ov)])
        if op in ("Add", "Sub", "Mul"):
            s = a.t + b.t if op == "Add" else (a.t - b.t if op == "Sub" else ctx.mul(a.t, b.t, path))
            if isinstance(s, int):
                return IV(s % M, a.ty)
            r = ctx.fresh("wrap", a.ty, path)
            q = z3.Int("wq!%d" % ctx.fresh_n)
            path.side.append(s == r + q * M)
            return IV(r, a.ty)
        if op in ("Div", "Rem"):
            if not (b.conc() and b.t > 0):
                raise Unsupported("division by a non-constant")
            if a.conc():
                return IV(a.t // b.t if op == "Div" else a.t % b.t, a.ty)
            q = ctx.fresh("divq", a.ty, path)
            r = ctx.fresh_range("divr", b.t, path)
            path.side.append(a.t == q * b.t + r)
            return IV(q if op == "Div" else r, a.ty)
        if op in ("Shl", "Shr"):
            if not b.conc():
                raise Unsupported("symbolic shift amount")
            k = b.t
            if a.conc():
                return IV((a.t << k) % M if op == "Shl" else a.t >> k, a.ty)
            if op == "Shr":
                r = ctx.fresh("shr", a.ty, path)
                lo = ctx.fresh_range("shrlo", 1 << k, path)
                path.side.append(a.t == r * (1 << k) + lo)
                path.side.append(r < (1 << (w - k)))
                return IV(r, a.ty)
            r = ctx.fresh("shl", a.ty, path)
            hi = ctx.fresh_range("shlhi", 1 << k, path)
            path.side.append(a.t * (1 << k) == r + hi * M)
            # r is a multiple of 2^k
            e = ctx.fresh_range("shle", 1 << (w - k), path)
            path.side.append(r == e * (1 << k))
            return IV(r, a.ty)
        if op == "BitAnd":
            for x, y in ((a, b), (b, a)):
                if y.conc() and y.t >= 0 and (y.t & (y.t + 1)) == 0:  # mask 2^k - 1
                    k = y.t.bit_length()
                    if x.conc():
                        return IV(x.t & y.t, a.ty)
                    if k == 0:
                        return IV(0, a.ty)
                    r = ctx.fresh_range("and", 1 << k, path)
                    q = ctx.fresh("andq", a.ty, path)
                    path.side.append(x.t == q * (1 << k) + r)
                    return IV(r, a.ty)
            if a.conc() and b.conc():
                return IV(a.t & b.t, a.ty)
            raise Unsupported("BitAnd with non-mask")
        if op in ("BitOr", "BitXor"):
            if a.conc() and b.conc():
                return IV((a.t | b.t) if op == "BitOr" else (a.t ^ b.t), a.ty)
            if a.conc() and a.t == 0:
                return b
            if b.conc() and b.t == 0:
                return a
            if op == "BitOr":
                # a | b == a + b when the operands have no common bit.  Discharged as a
                # proof obligation in the shape the derive produces:  (x << 1) | (y >> 63)
                # i.e. one operand even, the other < 2.
                a_even = z3.Or(*[z3.And(x % 2 == 0, y < 2) for x, y in ((a.t, b.t), (b.t, a.t))])
                path.oblig.append((list(path.pc), a_even, "BitOr operands are bit-disjoint (even | <2)"))
                return IV(a.t + b.t, a.ty)
            raise Unsupported("BitXor symbolic")
        raise Unsupported("binop " + op)

    # ---- run -----------------------------------------------------------------
    def run(self, item, args, path, depth=0):
        """Interpret `item` on `args`.  The whole machine state (call stack of frames +
        path) is deep-copied as one unit at symbolic branches, so references between
        frames stay consistent.  Returns a list of (Path, return value, top Frame)."""
        fr = Frame(item)
        for (l, _), a in zip(item.params, args):
            fr.cell(l).v = a
        fr.bb = item.order[0]
        work = [([fr], path)]
        done = []
        budget = self.ctx.stats
        while work:
            stack, path = work.pop()
            if len(work) + len(done) > MAX_PATHS:
                raise Unsupported("path budget exceeded (%d live paths)" % (len(work) + len(done)))
            while True:
                fr = stack[-1]
                stmts, term = fr.item.blocks[fr.bb]
                budget["blocks"] = budget.get("blocks", 0) + 1
                if budget["blocks"] > MAX_BLOCKS:
                    raise Unsupported("step budget exceeded (%d basic blocks interpreted)" % budget["blocks"])
                for st in stmts:
                    self.stmt(fr, st, path)
                self.cur_item = fr.item
                nxt = self.terminator(fr, term, path, stack)
                k = nxt[0]
                if k == "goto":
                    fr.bb = nxt[1]
                    continue
                if k == "call":
                    continue  # new frame pushed
                if k == "ret":
                    rv = fr.cell("_0").v
                    if len(stack) == 1:
                        done.append((path, rv, fr))
                        break
                    stack.pop()
                    caller = stack[-1]
                    self.place(caller, caller.pending_dst).set(rv)
                    caller.bb = caller.pending_bb
                    continue
                if k == "dead":
                    break
                if k == "forkval":
                    _, dst, tgt, alts = nxt
                    live = []
                    for cond, val in alts:
                        p2 = path.clone()
                        p2.pc.append(cond)
                        if self.feasible(p2):
                            live.append((p2, val))
                    for p2, val in live:
                        stack2 = copy.deepcopy(stack)
                        self.place(stack2[-1], dst).set(copy.deepcopy(val))
                        stack2[-1].bb = tgt
                        work.append((stack2, p2))
                    break
                if k == "fork":
                    alts = nxt[1]
                    if len(alts) == 2 and self.ctx.merge_diamonds:
                        merged = self.try_merge(stack, path, alts)
                        if merged is not None:
                            fr = stack[-1]
                            fr.bb = merged
                            continue
                    for cond, tgt in alts[:-1]:
                        stack2 = copy.deepcopy(stack)
                        p2 = path.clone()
                        p2.pc.append(cond)
                        if self.feasible(p2):
                            stack2[-1].bb = tgt
                            work.append((stack2, p2))
                    cond, tgt = alts[-1]
                    path.pc.append(cond)
                    if not self.feasible(path):
                        break
                    fr.bb = tgt
                    continue
                raise Unsupported("terminator result " + str(nxt))
        return done

    def try_merge(self, stack, path, alts):
        """both arms of a two-way symbolic branch are short, pure and meet again: execute
        both, merge the differing locals with if-then-else values and continue at the join
        (no fork).  Returns the join label or None."""
        (c0, t0), (c1, t1) = alts
        outs = []
        for cond, tgt in ((c0, t0), (c1, t1)):
            st2 = copy.deepcopy(stack)
            fr2 = st2[-1]
            fr2.bb = tgt
            p2 = path.clone()
            seq = [tgt]
            ok = True
            for _ in range(4):
                stmts, term = fr2.item.blocks[fr2.bb]
                try:
                    for st in stmts:
                        self.stmt(fr2, st, p2)
                    self.cur_item = fr2.item
                    nxt = self.terminator(fr2, term, p2, st2)
                except (Unsupported, ForkRequest):
                    ok = False
                    break
                if nxt[0] != "goto" or len(st2) != len(stack):
                    ok = False
                    break
                fr2.bb = nxt[1]
                seq.append(nxt[1])
                outs_snapshot = None
            if len(p2.pc) != len(path.pc) or len(p2.oblig) != len(path.oblig):
                ok = False
            outs.append((ok, seq, st2, p2, cond))
        if not (outs[0][0] or outs[1][0]):
            return None
        # first common block of the two visit sequences
        join = None
        for b in outs[0][1][1:]:
            if b in outs[1][1][1:]:
                join = b
                break
        if join is None:
            return None
        # re-run each arm exactly up to the join
        finals = []
        for (_, _, _, _, cond), tgt in zip(outs, (t0, t1)):
            st2 = copy.deepcopy(stack)
            fr2 = st2[-1]
            fr2.bb = tgt
            p2 = path.clone()
            try:
                steps = 0
                while fr2.bb != join:
                    stmts, term = fr2.item.blocks[fr2.bb]
                    for st in stmts:
                        self.stmt(fr2, st, p2)
                    self.cur_item = fr2.item
                    nxt = self.terminator(fr2, term, p2, st2)
                    if nxt[0] != "goto" or len(st2) != len(stack):
                        return None
                    fr2.bb = nxt[1]
                    steps += 1
                    if steps > 4:
                        return None
            except (Unsupported, ForkRequest):
                return None
            if len(p2.pc) != len(path.pc) or len(p2.oblig) != len(path.oblig):
                return None
            finals.append((st2, p2, cond))
        (sa, pa, ca), (sb, pb, cb) = finals
        # only the top frame's locals may differ (the arms do not write through references)
        for fa, fb in zip(sa[:-1], sb[:-1]):
            for l in set(fa.loc) | set(fb.loc):
                if not same_val(fa.loc.get(l, Cell()).v, fb.loc.get(l, Cell()).v):
                    return None
        fa, fb = sa[-1], sb[-1]
        try:
            for l in set(fa.loc) | set(fb.loc):
                va = fa.loc[l].v if l in fa.loc else None
                vb = fb.loc[l].v if l in fb.loc else None
                if va is None or vb is None:
                    continue  # a temporary of one arm only (dead after the join)
                if not same_val(va, vb):
                    fa.cell(l).v = ite_val(ca, va, vb)
        except Unsupported:
            return None
        # adopt arm A's (patched) state
        stack[:] = sa
        path.side[:] = pa.side + [x for x in pb.side[len(path.side):]]
        self.ctx.stats["merges"] = self.ctx.stats.get("merges", 0) + 1
        return join

    def closures_of(self, item):
        pre = item.name + "::{closure#"
        return [it for it in self.ctx.items if it.kind == "fn" and it.name.startswith(pre) and "}::" not in it.name[len(pre):]]

    def feasible(self, path):
        if not self.ctx.prune:
            return True
        s = z3.Solver()
        s.set("timeout", 20000)
        s.add(*path.side)
        s.add(*path.pc)
        r = s.check()
        return r != z3.unsat

    def stmt(self, fr, st, path):
        self.ctx.stats["stmts"] += 1
        st = st.rstrip(";")
        if st.startswith(("StorageLive", "StorageDead", "nop", "FakeRead", "PlaceMention", "Retag", "AscribeUserType", "Coverage", "ConstEvalCounter", "debug ", "scope ", "let ")):
            return
        if st.startswith("//"):
            return
        m = re.match(r"^(.*?) = (.*)$", st)
        if not m:
            if st.startswith("}") or st.startswith("{"):
                return
            raise Unsupported("stmt " + st)
        dst, rv = m.group(1), m.group(2)
        val = self.rvalue(fr, rv, path)
        self.place(fr, dst).set(val)

    def terminator(self, fr, t, path, stack):
        t = t.rstrip(";")
        if t == "return":
            return ("ret",)
        if t == "unreachable":
            return ("dead",)
        m = re.match(r"^goto -> (bb\d+)$", t)
        if m:
            return ("goto", m.group(1))
        m = re.match(r"^drop\(.*\) -> \[return: (bb\d+),.*\]$", t)
        if m:
            return ("goto", m.group(1))
        m = re.match(r"^switchInt\((.*)\) -> \[(.*)\]$", t)
        if m:
            v = self.operand(fr, m.group(1), path)
            arms = []
            other = None
            for a in split_top(m.group(2)):
                k, tgt = [x.strip() for x in a.split(":")]
                if k == "otherwise":
                    other = tgt
                else:
                    arms.append((int(k), tgt))
            if isinstance(v, BV_):
                if v.conc():
                    val = int(v.t)
                    for k, tgt in arms:
                        if k == val:
                            return ("goto", tgt)
                    return ("goto", other)
                alts = []
                for k, tgt in arms:
                    alts.append((v.t if k == 1 else z3.Not(v.t), tgt))
                if other:
                    ks = [k for k, _ in arms]
                    if ks == [0]:
                        alts.append((v.t, other))
                    elif ks == [1]:
                        alts.append((z3.Not(v.t), other))
                self.ctx.stats["forks"] += 1
                return ("fork", alts)
            if v.conc():
                for k, tgt in arms:
                    if k == v.t:
                        return ("goto", tgt)
                return ("goto", other)
            alts = [(v.t == k, tgt) for k, tgt in arms]
            if other:
                alts.append((z3.And(*[v.t != k for k, _ in arms]), other))
            self.ctx.stats["forks"] += 1
            return ("fork", alts)
        m = re.match(r"^assert\((!?)(.*?), \"(.*?)\".*\) -> \[success: (bb\d+),.*\]$", t)
        if m:
            v = self.operand(fr, m.group(2), path)
            neg = m.group(1) == "!"
            if v.conc():
                ok = (not v.t) if neg else v.t
                if not ok:
                    path.oblig.append((list(path.pc), z3.BoolVal(False), "MIR assert: " + m.group(3)))
                    return ("dead",)
                return ("goto", m.group(4))
            c = z3.Not(v.t) if neg else v.t
            path.oblig.append((list(path.pc), c, "MIR assert: " + m.group(3)))
            path.pc.append(c)
            return ("goto", m.group(4))
        m = re.match(r"^(.*?) = (.*)\((.*)\) -> \[return: (bb\d+), unwind.*\]$", t)
        if m:
            dst, fn, argtxt, tgt = m.groups()
            fn = fn.strip()
            args = [self.operand(fr, a, path) for a in split_top(argtxt)] if argtxt.strip() else []
            ctx = self.ctx
            ctx.stats["calls"] += 1
            if ctx.call_hook:
                try:
                    r = ctx.call_hook(self, fn, args, path)
                except ForkRequest as fk:
                    return ("forkval", dst, tgt, fk.alts)
                if r is not None:
                    self.place(fr, dst).set(r)
                    return ("goto", tgt)
            try:
                r = self.intrinsic(fn, args, path)
            except ForkRequest as fk:
                return ("forkval", dst, tgt, fk.alts)
            if r is not NotImplemented:
                self.place(fr, dst).set(r)
                return ("goto", tgt)
            cands = ctx.find_fn(fn, len(args))
            if not cands:
                raise Unsupported("call " + fn)
            item = self.pick(cands, args, fn)
            nf = Frame(item)
            for (l, _), a in zip(item.params, args):
                nf.cell(l).v = a
            nf.bb = item.order[0]
            fr.pending_dst = dst
            fr.pending_bb = tgt
            stack.append(nf)
            return ("call",)
        raise Unsupported("terminator " + t)

    def pick(self, cands, args, fn=""):
        """choose among same-named items (by-ref / by-value variants) by argument kinds and,
        for `<Type as Trait>::m` / `Type::m` calls, by the receiver type"""
        ms0 = re.match(r"^<(.+?) as [^>]*>::\w+$", fn)
        if ms0 and re.match(r"^(&|\[|\(|Vec<|Option<|Box<|alloc::|std::|core::|u8$|u16$|u32$|u64$|u128$|usize$|bool$)", ms0.group(1).strip()):
            want = re.sub(r"^&(mut )?", "", ms0.group(1).strip()).replace(" ", "")
            keep = [c for c in cands if c.params and re.sub(r"^&(mut )?", "", c.params[0][1].strip()).replace(" ", "") == want]
            if not keep:
                raise Unsupported("call " + fn)
            cands = keep
        if len(cands) == 1:
            # `<[u8; 32] as Zeroize>::zeroize`, `<Vec<T> as Clone>::clone`, ... are library code: a
            # same-named method of a crate type is not the callee (it would recurse into itself)
            ms = re.match(r"^<(.+?) as [^>]*>::\w+$", fn)
            if ms and re.match(r"^(&|\[|\(|Vec<|Option<|Box<|alloc::|std::|core::|u8$|u16$|u32$|u64$|u128$|usize$|bool$)", ms.group(1).strip()):
                rcv = re.sub(r"^&(mut )?", "", cands[0].params[0][1].strip()) if cands[0].params else ""
                if rcv.replace(" ", "") != re.sub(r"^&(mut )?", "", ms.group(1).strip()).replace(" ", ""):
                    raise Unsupported("call " + fn)
            return cands[0]
        m = re.match(r"^<([\w:]+) as [^>]*>::\w+$", fn) or re.match(r"^([\w:]+)::\w+$", fn)
        if m:
            ty = m.group(1).split("::")[-1]
            c3 = [c for c in cands if c.params and re.sub(r"^&(mut )?", "", c.params[0][1].strip()).split("::")[-1] == ty]
            if not c3:
                c3 = [c for c in cands if not c.params and c.ret.strip().split("::")[-1] == ty]
            if c3:
                cands = c3
                if len(cands) == 1:
                    return cands[0]
        def fits(it):
            for (_, pt), a in zip(it.params, args):
                isref = pt.strip().startswith("&")
                if isref != isinstance(a, Ref):
                    return False
            return True
        c2 = [c for c in cands if fits(c)]
        return (c2 or cands)[0]

    # ---- library models ----------------------------------------------------------
    def intrinsic(self, fn, args, path):
        ctx = self.ctx
        M64 = 1 << 64
        mw = re.match(r"^<(usize|u128|u64|u32|u16) as From<(u8|u16|u32|u64)>>::from$", fn)
        if mw and args and isinstance(args[0], IV) and BITS[mw.group(1)] >= BITS[mw.group(2)]:
            return IV(args[0].t, mw.group(1))     # lossless widening
        if fn in ("mac", "adc", "sbb") or fn.endswith(("::mac", "::adc", "::sbb")):
            name = fn.split("::")[-1]
            a = [x.t for x in args]
            if name == "mac":
                total = a[0] + ctx.mul(a[1], a[2], path) + a[3]
            elif name == "adc":
                total = a[0] + a[1] + a[2]
            else:
                # sbb(a, b, borrow): ret = a - (b + (borrow >> 63))  (mod 2^128)
                if isinstance(a[2], int):
                    bw = a[2] >> 63
                else:
                    bw = ctx.fresh_range("bw", 2, path)
                    lo = ctx.fresh_range("bwlo", 1 << 63, path)
                    path.side.append(a[2] == bw * (1 << 63) + lo)
                t = a[0] - a[1] - bw
                if isinstance(t, int):
                    lo_, hi_ = (t % M64, 0) if t >= 0 else (t + M64, M64 - 1)
                    return Agg("tuple", [IV(lo_, "u64"), IV(hi_, "u64")])
                lo_ = ctx.fresh("sbb_lo", "u64", path)
                neg = ctx.fresh_range("sbb_neg", 2, path)
                path.side.append(t == lo_ - neg * M64)
                return Agg("tuple", [IV(lo_, "u64"), IV(neg * (M64 - 1), "u64")])
            if isinstance(total, int):
                return Agg("tuple", [IV(total % M64, "u64"), IV(total >> 64, "u64")])
            lo_ = ctx.fresh(name + "_lo", "u64", path)
            hi_ = ctx.fresh(name + "_hi", "u64", path)
            path.side.append(total == lo_ + hi_ * M64)
            return Agg("tuple", [IV(lo_, "u64"), IV(hi_, "u64")])
        if fn.endswith("::wrapping_mul"):
            a, b = args
            w = BITS[a.ty]
            p = ctx.mul(a.t, b.t, path)
            if isinstance(p, int):
                return IV(p % (1 << w), a.ty)
            r = ctx.fresh("wmul", a.ty, path)
            q = ctx.fresh("wmulq", a.ty, path)
            path.side.append(p == r + q * (1 << w))
            path.trace.append(("wrapping_mul", r))
            return IV(r, a.ty)
        if fn.endswith("::checked_shr"):
            a, b = args
            if b.conc() and b.t < BITS[a.ty]:
                return Agg("Some", [self.binop("Shr", a, b, path)])
            if b.conc():
                return Agg("None", [])
            raise Unsupported("checked_shr symbolic")
        if fn.endswith("::unwrap_or") and len(args) == 2:
            o, d = args
            return o.f[0] if o.kind == "Some" else d
        m = re.match(r"^core::slice::<impl \[(\w+)\]>::(iter|iter_mut)$", fn)
        if m:
            r = args[0]
            arr = r.get()
            return Iter_([r.sub(i) for i in range(len(arr.f))])
        if re.match(r"^<.*Iter.* as Iterator>::rev$", fn) or fn.endswith(" as Iterator>::rev"):
            return Iter_(list(reversed(args[0].items)))
        if " as Iterator>::zip::<" in fn:
            a, b = args
            n = min(len(a.items), len(b.items))
            return Iter_([Agg("tuple", [a.items[i], b.items[i]]) for i in range(n)])
        if " as Iterator>::enumerate" in fn:
            return Iter_([Agg("tuple", [IV(i, "usize"), x]) for i, x in enumerate(args[0].items)])
        if re.match(r"^BTreeSet::<.*>::new$", fn):
            return Agg("BTreeSet", [])          # entries: Agg('entry', [key, BV_ present])
        if re.match(r"^BTreeSet::<.*>::insert$", fn):
            st = args[0].get()
            key = args[1]
            eqs = []
            for e in st.f:
                k2, pres = e.f
                eqs.append(z3.And(pres.t if not pres.conc() else z3.BoolVal(pres.t), val_eq(key, k2)))
            fresh = z3.Not(z3.Or(*eqs)) if eqs else z3.BoolVal(True)
            fresh = z3.simplify(fresh)
            newb = BV_(True) if z3.is_true(fresh) else (BV_(False) if z3.is_false(fresh) else BV_(fresh))
            st.f.append(Agg("entry", [key, newb]))
            return newb
        if re.match(r"^BTreeSet::<.*>::(len|is_empty)$", fn):
            st = args[0].get()
            terms = [(e.f[1].t if not e.f[1].conc() else z3.BoolVal(e.f[1].t)) for e in st.f]
            if fn.endswith("is_empty"):
                if not terms:
                    return BV_(True)
                r = z3.simplify(z3.Not(z3.Or(*terms)))
                return BV_(True) if z3.is_true(r) else (BV_(False) if z3.is_false(r) else BV_(r))
            if all(e.f[1].conc() for e in st.f):
                return IV(sum(1 for e in st.f if e.f[1].t), "usize")
            return IV(z3.Sum(*[z3.If(t, 1, 0) for t in terms]), "usize")
        if re.match(r"^alloc::vec::Vec::<.*>::new$", fn):
            return Agg("Vec", [])
        if re.match(r"^alloc::vec::Vec::<.*>::push$", fn):
            args[0].get().f.append(args[1])
            return Agg("tuple", [])
        if re.match(r"^alloc::vec::Vec::<.*>::len$", fn):
            return IV(len(args[0].get().f), "usize")
        if re.match(r"^Option::<.*>::is_none$", fn):
            return BV_(args[0].get().kind == "None")
        if re.match(r"^<Option<usize> as PartialEq>::(ne|eq)$", fn):
            a, b = args[0].get(), args[1].get()
            if a.kind != b.kind:
                eq = False
            elif a.kind == "None":
                eq = True
            else:
                x, y = a.f[0], b.f[0]
                if not (x.conc() and y.conc()):
                    raise Unsupported("symbolic Option<usize> comparison")
                eq = x.t == y.t
            return BV_(eq if fn.endswith("::eq") else not eq)
        if fn.endswith("::to_vec") and "slice" in fn:
            src = args[0]
            v = src.get() if isinstance(src, Ref) else src
            return Agg("Vec", [copy_val(x) for x in v.f])
        if re.match(r"^<alloc::vec::Vec<.*> as Index<core::ops::Range<usize>>>::index$", fn):
            vec = args[0].get()
            lo, hi = args[1].f
            if not (lo.conc() and hi.conc()):
                raise Unsupported("symbolic range index")
            ok = lo.t <= hi.t <= len(vec.f)
            path.oblig.append((list(path.pc), z3.BoolVal(ok), "slice index %d..%d within Vec of length %d" % (lo.t, hi.t, len(vec.f))))
            if not ok:
                raise Unsupported("slice index out of range (panic path)")
            return Ref(Cell(Agg("slice", vec.f[lo.t:hi.t])))
        if fn in ("<T as IntoIterator>::into_iter", "<<T as IntoIterator>::IntoIter as IntoIterator>::into_iter"):
            a = args[0]
            if isinstance(a, Agg) and a.kind in ("Vec", "array", "slice"):
                return Iter_(list(a.f))
            return a
        if "IndexMut<RangeFull>>::index_mut" in fn or "Index<RangeFull>>::index" in fn:
            return args[0]
        if fn.endswith("ByteOrder>::read_u64_into"):
            src, dst = args[0], args[1]
            sb = src.get().f
            n = len(dst.get().f)
            if len(sb) != 8 * n:
                raise Unsupported("read_u64_into length")
            for i in range(n):
                tot = 0
                for k in range(8):
                    tot = tot + sb[8 * i + k].t * (1 << (8 * k))
                dst.sub(i).set(IV(tot, "u64"))
            return Agg("tuple", [])
        if fn.endswith("ByteOrder>::write_u64_into"):
            src, dst = args[0], args[1]
            sl = src.get().f
            if len(dst.get().f) != 8 * len(sl):
                raise Unsupported("write_u64_into length")
            for i, l in enumerate(sl):
                if l.conc():
                    for k in range(8):
                        dst.sub(8 * i + k).set(IV((l.t >> (8 * k)) & 255, "u8"))
                else:
                    bs = [self.ctx.fresh_range("byte", 256, path) for _ in range(8)]
                    path.side.append(l.t == sum(b * (1 << (8 * k)) for k, b in enumerate(bs)))
                    for k in range(8):
                        dst.sub(8 * i + k).set(IV(bs[k], "u8"))
            return Agg("tuple", [])
        if " as Iterator>::fold::<" in fn:
            it, acc = args[0], args[1]
            if isinstance(it, Ref):
                it = it.get()
            clos = self.closures_of(self.cur_item)
            if len(clos) != 1:
                raise Unsupported("ambiguous closure for " + fn)
            for x in it.items:
                res = Exec(self.ctx).run(clos[0], [Ref(Cell(Agg("closure", []))), acc, x], path)
                if len(res) != 1:
                    raise Unsupported("closure forked")
                acc = res[0][1]
            return acc
        if fn == "<Choice as From<u8>>::from":
            return Agg("Choice", [args[0]])
        if fn == "<Choice as Into<bool>>::into":
            c = args[0].f[0]
            return BV_(c.t == 1 if not c.conc() else c.t == 1)
        if fn == "<Choice as Not>::not":
            c = args[0].f[0]
            return Agg("Choice", [IV(1 - c.t, "u8")])
        if fn.startswith("CtOption::<") and fn.endswith(">::new"):
            return Agg("CtOption", [args[0], args[1]])
        if " as Iterator>::all::<" in fn:
            it = args[0]
            if isinstance(it, Ref):
                it = it.get()
            clos = self.closures_of(self.cur_item)
            if len(clos) != 1:
                raise Unsupported("ambiguous closure for " + fn)
            conds = []
            for x in it.items:
                sub = Exec(self.ctx)
                res = sub.run(clos[0], [Ref(Cell(Agg("closure", []))), x], path)
                if len(res) != 1:
                    raise Unsupported("closure forked")
                conds.append(res[0][1])
            if all(c.conc() for c in conds):
                return BV_(all(c.t for c in conds))
            return BV_(z3.And(*[c.t if not c.conc() else z3.BoolVal(c.t) for c in conds]))
        if fn.endswith(" as IntoIterator>::into_iter"):
            a = args[0]
            if isinstance(a, Ref) and isinstance(a.get(), Agg) and a.get().kind == "array":
                return Iter_([a.sub(i) for i in range(len(a.get().f))])
            if isinstance(a, Agg) and a.kind == "Range":
                lo, hi = a.f
                if not (lo.conc() and hi.conc()):
                    raise Unsupported("symbolic range")
                return Iter_([IV(i, lo.ty) for i in range(lo.t, hi.t)])
            return a
        if fn.endswith(" as Iterator>::next"):
            it = args[0].get()
            if isinstance(it, Agg) and it.kind in ("Vec", "array", "slice"):
                it = Iter_(list(it.f))
                args[0].set(it)
            if not isinstance(it, Iter_):
                raise Unsupported("next on " + repr(it))
            if it.items:
                x = it.items.pop(0)
                return Agg("Some", [x])
            return Agg("None", [])
        m = re.match(r"^<&(\w+) as PartialOrd>::(lt|gt|le|ge)$", fn)
        if m:
            a = args[0].get().get()
            b = args[1].get().get()
            op = {"lt": "Lt", "gt": "Gt", "le": "Le", "ge": "Ge"}[m.group(2)]
            return self.binop(op, a, b, path)
        if fn == "<core::cmp::Ordering as PartialEq>::eq":
            a = args[0].get()
            b = args[1].get()
            return BV_(a.kind == b.kind)
        return NotImplemented


def same_val(a, b):
    if type(a) is not type(b):
        return False
    if isinstance(a, IV):
        return a.ty == b.ty and (a.t is b.t or (isinstance(a.t, int) and isinstance(b.t, int) and a.t == b.t) or
                                 (not isinstance(a.t, int) and not isinstance(b.t, int) and a.t.eq(b.t)))
    if isinstance(a, BV_):
        return (a.t is b.t) or (isinstance(a.t, bool) and isinstance(b.t, bool) and a.t == b.t) or \
            (not isinstance(a.t, bool) and not isinstance(b.t, bool) and a.t.eq(b.t))
    if isinstance(a, Agg):
        return a.kind == b.kind and len(a.f) == len(b.f) and all(same_val(x, y) for x, y in zip(a.f, b.f))
    if isinstance(a, str):
        return a == b
    if isinstance(a, Ref):
        return a.path == b.path and same_val(a.cell.v, b.cell.v)
    if isinstance(a, Iter_):
        return len(a.items) == len(b.items) and all(same_val(x, y) for x, y in zip(a.items, b.items))
    if a is None and b is None:
        return True
    return False


def ite_val(cond, a, b):
    if same_val(a, b):
        return a
    if isinstance(a, IV) and isinstance(b, IV):
        return IV(z3.If(cond, a.t, b.t), a.ty)
    if isinstance(a, BV_) and isinstance(b, BV_):
        ta = z3.BoolVal(a.t) if isinstance(a.t, bool) else a.t
        tb = z3.BoolVal(b.t) if isinstance(b.t, bool) else b.t
        return BV_(z3.If(cond, ta, tb))
    if isinstance(a, Agg) and isinstance(b, Agg) and a.kind == b.kind and len(a.f) == len(b.f):
        return Agg(a.kind, [ite_val(cond, x, y) for x, y in zip(a.f, b.f)])
    if isinstance(a, (Ref, IteRef)) and isinstance(b, (Ref, IteRef)):
        return IteRef(cond, a, b)
    raise Unsupported("cannot merge %r / %r" % (a, b))


def val_eq(a, b):
    if isinstance(a, str) or isinstance(b, str):
        return z3.BoolVal(a == b)
    if isinstance(a, BV_):
        ta = z3.BoolVal(a.t) if isinstance(a.t, bool) else a.t
        tb = z3.BoolVal(b.t) if isinstance(b.t, bool) else b.t
        return ta == tb
    """structural equality of two values as a z3 Bool"""
    if isinstance(a, IV):
        r = (a.t == b.t)
        return z3.BoolVal(r) if isinstance(r, bool) else r
    if isinstance(a, Agg):
        if len(a.f) != len(b.f):
            return z3.BoolVal(False)
        parts = [val_eq(x, y) for x, y in zip(a.f, b.f)]
        return z3.And(*parts) if parts else z3.BoolVal(True)
    raise Unsupported("val_eq on %r" % (a,))


def copy_val(v):
    if isinstance(v, Agg):
        return Agg(v.kind, [copy_val(x) for x in v.f])
    if isinstance(v, Iter_):
        return Iter_(v.items)
    return v


def ty_of(v):
    return None


CMP = {
    "Lt": lambda a, b: a < b, "Le": lambda a, b: a <= b, "Gt": lambda a, b: a > b,
    "Ge": lambda a, b: a >= b, "Eq": lambda a, b: a == b, "Ne": lambda a, b: a != b,
}
BINOPS = set(CMP) | {"Div", "Rem", "Add", "Sub", "Mul", "AddWithOverflow", "SubWithOverflow", "MulWithOverflow",
                     "Shl", "Shr", "BitAnd", "BitOr", "BitXor"}
DISCR = {"None": 0, "Some": 1, "Less": -1, "Equal": 0, "Greater": 1, "Ok": 0, "Err": 1}
