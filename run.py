#!/usr/bin/env python3
"""Driver: /verif/run.py <quick|thorough> <PROPERTY-ID>

Decides one property of /verif/properties.jsonl by solver-based checking of the code in
/repo's *current working tree* (harness crates have path dependencies on /repo, so every
run recompiles what changed; the MIR->SMT encoding is regenerated on every run).

exit 0  property held on everything explored (KNOWN-FINDING lines may be printed)
exit 1  VIOLATION property=<id> replay=<path>  (a solver counterexample that reproduced
        natively on the real crates)
exit 2  inconclusive (timeout / OOM / unwinding assertion / solver error / a
        counterexample that did not reproduce): fail closed, never a VIOLATION line.
"""
import hashlib
import json
import os
import subprocess
import sys
import time

VERIF = os.path.dirname(os.path.abspath(__file__))
sys.path.insert(0, VERIF)
try:  # the SMT front end (z3 python package) lives in the tooling venv
    import z3  # noqa: F401
except ImportError:
    if os.environ.get("VERIF_REEXEC") != "1":
        os.environ["VERIF_REEXEC"] = "1"
        os.execvp("python3-vt", ["python3-vt"] + sys.argv)
from vlib import kani_runner as KR  # noqa: E402
from vlib import obligations as OB  # noqa: E402

REPLAYS = os.path.join(VERIF, "replays")
EVID = os.path.join(VERIF, "evidence")
LOGS = os.path.join(VERIF, ".cache", "logs")


def log(msg):
    print(msg, flush=True)


def build_replay():
    """(Re)build the native replay binary against /repo's current tree, dev+release."""
    crate = os.path.join(VERIF, "replay")
    KR.sync_lock(crate)
    tdir = os.path.join(VERIF, ".cache", "replay-target")
    bins = {}
    for prof in ("dev", "release"):
        cmd = ["cargo", "build", "--offline", "--target-dir", tdir]
        if prof == "release":
            cmd.append("--release")
        r = subprocess.run(cmd, cwd=crate, env=KR.ENV, stdout=subprocess.PIPE,
                           stderr=subprocess.STDOUT, text=True)
        if r.returncode != 0:
            log("replay build (%s) failed:\n%s" % (prof, r.stdout[-2000:]))
            return None
        bins[prof] = os.path.join(tdir, "debug" if prof == "dev" else "release", "verif-replay")
    return bins


def replay_case(bins, case, pid, tag):
    """-> (reproduced: bool|None, path, outputs)"""
    os.makedirs(REPLAYS, exist_ok=True)
    h = hashlib.sha1(json.dumps(case, sort_keys=True).encode()).hexdigest()[:10]
    path = os.path.join(REPLAYS, "%s_%s_%s.json" % (pid, tag.replace("::", "_"), h))
    with open(path, "w") as f:
        json.dump(case, f, indent=1, sort_keys=True)
    outs = {}
    repro = False
    for prof, b in bins.items():
        try:
            r = subprocess.run([b, path], stdout=subprocess.PIPE, stderr=subprocess.STDOUT, text=True,
                               timeout=600)
        except subprocess.TimeoutExpired:
            outs[prof] = (None, "replay timed out after 600 s")
            return None, path, outs
        outs[prof] = (r.returncode, r.stdout.strip()[-400:])
        if r.returncode == 1:
            repro = True
        elif r.returncode != 0:
            return None, path, outs
    return repro, path, outs


def load_known():
    p = os.path.join(VERIF, "known_findings.json")
    if os.path.exists(p):
        return json.load(open(p))
    return {"known": [], "fixed": []}


def main():
    if len(sys.argv) < 3 or sys.argv[1] not in ("quick", "thorough"):
        print(__doc__)
        sys.exit(64)
    tier, pid = sys.argv[1], sys.argv[2]
    seed = int(os.environ.get("VERIF_SEED", "0") or 0)
    t0 = time.time()
    spec = OB.get(pid, tier, seed)
    if spec is None:
        log("no check registered for %s" % pid)
        sys.exit(64)
    only = os.environ.get("VERIF_ONLY")
    if only:  # development aid: restrict to obligations whose name contains one of the comma-separated substrings
        spec["obligations"] = [o for o in spec["obligations"] if any(s in o["name"] for s in only.split(","))]
    log("== %s (%s): %d obligations; repo=%s" % (pid, tier, len(spec["obligations"]), KR.REPO))
    logdir = os.path.join(LOGS, pid)
    nslots = int(os.environ.get("VERIF_JOBS", "12"))

    results = []  # (obligation, status, why, info)
    # ---- engine M (MIR -> SMT) ------------------------------------------------
    m_obs = [o for o in spec["obligations"] if o["engine"] == "mirsmt"]
    if m_obs:
        from vlib import mir_engine
        results += mir_engine.run(m_obs, tier, seed, log, logdir)
    # ---- engine K (Kani) ------------------------------------------------------
    k_obs = [o for o in spec["obligations"] if o["engine"] in ("kani", "kani-in")]
    for eng in ("kani", "kani-in"):
        obs = [o for o in k_obs if o["engine"] == eng]
        if not obs:
            continue
        jobs = []
        for o in obs:
            j = {"harness": o["harness"], "cap": o["cap"][0 if tier == "quick" else 1] if isinstance(o["cap"], tuple) else o["cap"],
                 "mem": o.get("mem", 12), "extra": o.get("extra", ()), "must_cover": o.get("must_cover"),
                 "unwindset": o.get("unwindset")}
            jobs.append(j)
        if eng == "kani":
            rs = KR.run_many(jobs, nslots, log, logdir)
        else:
            from vlib import kani_in
            rs = kani_in.run_many(jobs, nslots, log, logdir)
        for o, r in zip(obs, rs):
            results.append((o, r["status"], r["why"], r))

    # ---- counterexamples: native replay ----------------------------------------
    known = load_known()
    violations, known_hits, inconclusive = [], [], []
    bins = None
    for o, st, why, info in results:
        if st == "pass":
            continue
        if st == "inconclusive":
            inconclusive.append((o, why))
            continue
        # st == 'fail': candidate counterexample
        cases = []
        if o.get("to_case"):
            try:
                cases = o["to_case"](o, info) or []
            except Exception as e:  # noqa
                log("  could not derive a replay case for %s: %r" % (o["name"], e))
        if not cases:
            inconclusive.append((o, "solver reported a failure but no replayable case could be derived: " + why))
            continue
        if bins is None:
            bins = build_replay()
        if bins is None:
            inconclusive.append((o, "replay binary did not build"))
            continue
        any_repro = False
        for case in cases:
            case.setdefault("property", pid)
            case.setdefault("obligation", o["name"])
            repro, path, outs = replay_case(bins, case, pid, o["name"])
            log("  replay %s -> %s %s" % (os.path.relpath(path, VERIF), repro, outs))
            if repro:
                any_repro = True
                kf = OB.match_known(known, pid, o, case)
                if kf:
                    known_hits.append((kf, path))
                else:
                    violations.append((o, path, why))
        if not any_repro:
            inconclusive.append((o, "counterexample did not reproduce natively (encoding suspect): " + why))

    # known findings that are *expected* on the unchanged tree are printed once
    seen = set()
    for kf, path in known_hits:
        if kf["id"] in seen:
            continue
        seen.add(kf["id"])
        log("KNOWN-FINDING: property=%s %s" % (pid, kf["what"]))
    for o, path, why in violations:
        log("VIOLATION property=%s replay=%s" % (pid, path))
        log("  obligation %s: %s" % (o["name"], why[:300]))
    for o, why in inconclusive:
        log("INCONCLUSIVE obligation %s: %s" % (o["name"], why[:300]))

    wall = time.time() - t0
    write_evidence(pid, tier, seed, spec, results, violations, known_hits, inconclusive, wall)
    if violations:
        sys.exit(1)
    if inconclusive:
        sys.exit(2)
    log("OK %s: %d/%d obligations discharged in %.0fs" % (pid, sum(1 for r in results if r[1] == "pass"), len(results), wall))
    sys.exit(0)


def write_evidence(pid, tier, seed, spec, results, violations, known_hits, inconclusive, wall):
    os.makedirs(EVID, exist_ok=True)
    discharged = [r for r in results if r[1] == "pass"]
    obl_rows = []
    solver_s = 0.0
    def is_concrete(o):
        return o["name"].startswith("native::") or o["name"] in ("mir::recover-vectors", "c07::vectors-vs-bigint-model", "c07::translator-validation")
    for o, st, why, info in results:
        eng = "native concrete cross-check (replay binary; not a solver query)" if is_concrete(o) else (
            "Engine M: MIR -> SMT (z3 + cvc5)" if o["engine"] == "mirsmt" else "Engine K: Kani / CBMC / CaDiCaL")
        row = {"name": o["name"], "engine": eng, "decided_by_solver": not is_concrete(o), "status": st, "claim": o.get("claim", ""),
               "bounds": o.get("bounds", ""), "wall_s": info.get("wall_s")}
        if info.get("verif_time") is not None:
            row["solver_s"] = info["verif_time"]
            solver_s += info["verif_time"]
        if info.get("solver_s") is not None:
            row["solver_s"] = info["solver_s"]
            solver_s += info["solver_s"]
        if info.get("checks"):
            row["cbmc_checks"] = info["checks"]
        if info.get("covers"):
            row["witnesses"] = info["covers"]
        if info.get("queries") is not None:
            row["queries"] = info["queries"]
        if st != "pass":
            row["why"] = why[:300]
        obl_rows.append(row)
    funcs = sorted({f for o, *_ in results for f in o.get("functions", [])})
    stubs = sorted({s for o, *_ in results for s in o.get("stubs", [])})
    samples = [{"obligation": o["name"], "claim": o.get("claim", ""), "bounds": o.get("bounds", ""),
                "status": st} for o, st, _, _ in results[:6]]
    nontrivial = sum(1 for o, st, _, info in results if st == "pass" and not is_concrete(o) and (info.get("covers") or info.get("queries")))
    solver_q = sum(int(info.get("queries") or 1) for o, _, _, info in results if not is_concrete(o))
    concrete_n = sum(int(info.get("queries") or 1) for o, _, _, info in results if is_concrete(o))
    cov = {
        "obligations": len(results),
        "discharged": len(discharged),
        "evaluations": solver_q,
        "solver_queries": solver_q,
        "concrete_cross_check_cases": concrete_n,
        "solver_obligations": sum(1 for o, *_ in results if not is_concrete(o)),
        "concrete_cross_check_obligations": sum(1 for o, *_ in results if is_concrete(o)),
        "distinct_nontrivial": nontrivial,
        "rule": "one obligation = one solver query family (a Kani harness decided by CBMC+CaDiCaL over the compiled code, or SMT queries on the MIR encoding); counted non-trivial only if it is a solver obligation, discharged, AND its reachability/vacuity witnesses were satisfied; concrete cross-checks are counted separately and are never the deciding step",
        "samples": samples,
        "checker_cmd": "python3 /verif/run.py %s %s" % (tier, pid),
        "trusted_base": spec.get("trusted_base", []),
        "functions_encoded": funcs,
        "stubs": stubs,
        "bounds": spec.get("bounds", ""),
        "outside_claim": spec.get("outside", ""),
        "solver_time_s": round(solver_s, 1),
        "per_obligation": obl_rows,
        "known_findings_hit": [k["id"] for k, _ in known_hits],
        "inconclusive": [o["name"] for o, _ in inconclusive],
        "explanation": spec.get("explanation", ""),
        "exhaustive": False,
    }
    ev = {
        "property_id": pid,
        "tier": tier,
        "seed": seed,
        "level": spec.get("level", "model_checking"),
        "coverage": cov,
        "assumptions": spec.get("assumptions", []),
        "wall_s": round(wall, 1),
        "violations": len(violations),
    }
    with open(os.path.join(EVID, "%s.json" % pid), "w") as f:
        json.dump(ev, f, indent=1)


if __name__ == "__main__":
    try:
        main()
    except SystemExit:
        raise
    except BaseException as e:  # noqa: an infrastructure failure is never a verdict
        import traceback
        traceback.print_exc()
        print("INCONCLUSIVE: the checker itself failed (%s: %s); no verdict" % (type(e).__name__, e))
        sys.exit(2)
