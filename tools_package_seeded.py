#!/usr/bin/env python3
"""copy confirmed seeded changes from the sub-agents' output into /verif/seeded/<id>/"""
import json, os, re, shutil, sys
SRC = '/tmp/mut/out'; DST = '/verif/seeded'
os.makedirs(DST, exist_ok=True)
rows = []
for pid in sorted(os.listdir(SRC)):
    d0 = os.path.join(SRC, pid)
    if not os.path.isdir(d0):
        continue
    for k in sorted(os.listdir(d0)):
        d = os.path.join(d0, k)
        cj = os.path.join(d, 'confirm.json')
        if not os.path.exists(cj):
            continue
        c = json.load(open(cj))
        if not c.get('confirmed'):
            continue
        sid = '%s-%s' % (pid, k)
        out = os.path.join(DST, sid)
        os.makedirs(out, exist_ok=True)
        shutil.copy(os.path.join(d, 'patch.diff'), os.path.join(out, 'patch.diff'))
        for f in c.get('demo', []):
            shutil.copy(os.path.join(d, f), os.path.join(out, f))
        notes = open(os.path.join(d, 'notes.md')).read() if os.path.exists(os.path.join(d, 'notes.md')) else ''
        open(os.path.join(out, 'notes.md'), 'w').write(notes)
        meta_p = os.path.join(out, 'meta.json')
        meta = json.load(open(meta_p)) if os.path.exists(meta_p) else {}
        meta.update({
            'id': sid, 'breaks_property': pid,
            'author': 'independent sub-agent given only the property text and a scratch worktree',
            'demo_crate_tests_dir': c.get('crate'),
            'confirmed_by_me': {
                'demo_without_patch': c.get('demo_without'), 'demo_with_patch': c.get('demo_with'),
                'full_suite_with_patch': c.get('suite_with'),
                'how': 'fresh worktree of /repo HEAD under /tmp/mutchk: cargo test -p <crate> --test <demo> without the patch (pass), git apply patch, same test (fail), demo removed, cargo test --workspace --offline (all pass); worktree removed afterwards',
            },
        })
        m = re.search(r'(?is)(needs?|manifest|trigger)[^\n]*\n(.{0,600})', notes)
        meta.setdefault('needs_to_manifest', (notes.split('\n\n')[1] if '\n\n' in notes else notes)[:600])
        json.dump(meta, open(meta_p, 'w'), indent=1)
        rows.append(sid)
print(len(rows), 'packaged:', ' '.join(rows))
