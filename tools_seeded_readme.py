#!/usr/bin/env python3
import json, os
SEED='/verif/seeded'
rows=[]
for sid in sorted(os.listdir(SEED)):
    mp=os.path.join(SEED,sid,'meta.json')
    if not os.path.exists(mp): continue
    m=json.load(open(mp))
    mat=m.get('matrix',{})
    caught=[p for p,v in mat.items() if isinstance(v,dict) and v.get('violations')]
    inco=[p for p,v in mat.items() if isinstance(v,dict) and v.get('exit')==2 and not v.get('violations')]
    which=''
    for p in caught:
        f=mat[p].get('failed_obligations') or []
        which='; '.join(x.split(']')[1].strip().split(' ')[0] for x in f[:3] if ']' in x)
    note=(m.get('summary') or m.get('needs_to_manifest','')).replace('\n',' ')[:160]
    rows.append('| %s | %s | %s | %s | %s |' % (sid, m['breaks_property'], note, ', '.join(caught) or ('inconclusive only: '+', '.join(inco) if inco else 'NOT caught'), which))
open(os.path.join(SEED,'README.md'),'w').write('''# Seeded changes

Each directory holds one change written by an independent sub-agent (given only the property
text and a scratch worktree), `patch.diff`, the agent's demonstration test, its notes and
`meta.json` (what it breaks, what I confirmed, which registered checks were run against it).
All were confirmed in a scratch worktree: the demonstration passes without the patch, fails
with it, and the full existing test suite passes with it. None is committed to /repo.

| id | breaks | needs (agent's words, truncated) | registered quick check(s) reporting VIOLATION | failing obligation(s) |
|---|---|---|---|---|
'''+'\n'.join(rows)+'\n')
print(len(rows))
