#!/usr/bin/env python3
import json, os
SEED='/verif/seeded'
rows=[]
for sid in sorted(os.listdir(SEED)):
    mp=os.path.join(SEED,sid,'meta.json')
    if not os.path.exists(mp): continue
    m=json.load(open(mp))
    mat=m.get('matrix',{})
    caught=[p for p,v in mat.items() if isinstance(v,dict) and v.get('violations')]
    inco=[p for p,v in mat.items() if isinstance(v,dict) and v.get('exit')==2 and not v.get('violations')]
    which=''
    names=[]
    for p,v in mat.items():
        if not isinstance(v,dict): continue
        for x in (v.get('failed_obligations') or []):
            if ']' in x:
                n=x.split(']')[1].strip().split(' ')[0].rstrip(':')
                if n not in names: names.append(n)
    refused=[]
    for p,v in mat.items():
        if not isinstance(v,dict): continue
        for x in (v.get('inconclusive') or []):
            if ']' in x:
                n=x.split(']')[1].strip().split(' ')[0].rstrip(':')
                if n not in refused and n not in names: refused.append(n)
    conc=lambda n: n.startswith('native::') or n in ('mir::recover-vectors','c07::vectors-vs-bigint-model','c07::translator-validation')
    sol=[n for n in names if not conc(n)]
    nat=[n for n in names if conc(n)]
    which=('solver refutes: '+', '.join(sol[:4]) if sol else 'solver refutes: none')+('; solver refuses (exit 2 on its own): '+', '.join(refused[:3]) if refused else '')+('; concrete: '+', '.join(nat[:3]) if nat else '')
    note=(m.get('summary') or m.get('needs_to_manifest','')).replace('\n',' ')[:160]
    rows.append('| %s | %s | %s | %s | %s |' % (sid, m['breaks_property'], note, ', '.join(caught) or ('inconclusive only: '+', '.join(inco) if inco else 'NOT caught'), which))
open(os.path.join(SEED,'README.md'),'w').write('''# Seeded changes

Each directory holds one change written by an independent sub-agent (given only the property
text and a scratch worktree), `patch.diff`, the agent's demonstration test, its notes and
`meta.json` (what it breaks, what I confirmed, which registered checks were run against it).
All were confirmed in a scratch worktree: the demonstration passes without the patch, fails
with it, and the full existing test suite passes with it. None is committed to /repo.

| id | written against | needs (agent's words, truncated) | registered quick check(s) reporting VIOLATION | obligations that fail (solver = refuted or refused by a solver obligation; concrete = native cross-check) |
|---|---|---|---|---|
'''+'\n'.join(rows)+'\n')
print(len(rows))
