#!/usr/bin/env python3
"""setup_cmd: build the framework from files on disk only (offline).
Pre-builds one Kani target dir (dependency graph) and the native replay binary; the
checks themselves rebuild whatever changed in /repo on every run."""
import os, subprocess, sys, time
VERIF = os.path.dirname(os.path.abspath(__file__))
sys.path.insert(0, VERIF)
from vlib import kani_runner as KR
t = time.time()
KR.sync_lock()
s = KR.Slots(int(os.environ.get("VERIF_SETUP_SLOTS", "12")))
s.prepare(print)
import run
bins = run.build_replay()
print("setup done in %.0fs, replay bins: %s" % (time.time() - t, bins))
sys.exit(0 if bins else 1)
