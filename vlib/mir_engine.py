"""Engine M driver: MIR dump of the current /repo/sharks -> SMT obligations (C07).

Every run regenerates the MIR from /repo's working tree (scratch copy outside /repo and
/verif, removed afterwards), re-validates the translator on concrete vectors against
the natively compiled field type, and discharges the obligations with /usr/bin/z3 and
cvc5."""
import json
import os
import random
import shutil
import subprocess
import sys
import tempfile
import time

VERIF = os.path.dirname(os.path.dirname(os.path.abspath(__file__)))
sys.path.insert(0, VERIF)
REPO = os.environ.get("VERIF_REPO", "/repo")

P = 2**128 + 12451
R = 2**192
M64 = 2**64
RINV = pow(R, -1, P)


def dump_mir(log, crate="sharks"):
    if crate != "sharks":
        return dump_mir_crate(log, crate)
    scratch = tempfile.mkdtemp(prefix="verif-mir-")
    try:
        d = os.path.join(scratch, "sharks")
        shutil.copytree(os.path.join(REPO, "sharks"), d, ignore=shutil.ignore_patterns("target", "fuzz", "benches"))
        shutil.copyfile(os.path.join(REPO, "Cargo.lock"), os.path.join(d, "Cargo.lock"))
        import re
        ct = open(os.path.join(d, "Cargo.toml")).read()
        ct = re.sub(r"\[\[bench\]\][^\[]*", "", ct) + "\n[workspace]\n"
        open(os.path.join(d, "Cargo.toml"), "w").write(ct)
        env = dict(os.environ)
        env["CARGO_NET_OFFLINE"] = "true"
        env.pop("RUSTUP_TOOLCHAIN", None)
        tdir = os.path.join(VERIF, ".cache", "mir-target")
        # touch so that cargo re-runs rustc (an up-to-date crate prints nothing)
        os.utime(os.path.join(d, "src", "lib.rs"))
        cmd = ["cargo", "+nightly", "rustc", "--offline", "--lib", "--no-default-features", "--features",
               "zeroize_memory", "--target-dir", tdir, "--", "-Zunpretty=mir", "-C", "debug-assertions=off",
               "-C", "overflow-checks=on"]
        t = time.time()
        r = subprocess.run(cmd, cwd=d, env=env, stdout=subprocess.PIPE, stderr=subprocess.PIPE, text=True)
        log("  MIR dump: rc=%d, %d lines, %.0fs" % (r.returncode, r.stdout.count("\n"), time.time() - t))
        if r.returncode != 0 or r.stdout.count("\n") < 1000:
            log(r.stderr[-1500:])
            return None
        return r.stdout
    finally:
        shutil.rmtree(scratch, ignore_errors=True)


def dump_mir_crate(log, crate, features=("key-sync",)):
    """MIR of another workspace member (scratch copy of the current tree, benches /
    dev-dependencies stripped so that nothing outside the crate's own graph is needed)"""
    scratch = tempfile.mkdtemp(prefix="verif-mir-")
    try:
        d = os.path.join(scratch, crate)
        shutil.copytree(os.path.join(REPO, crate), d, ignore=shutil.ignore_patterns("target", "benches", "examples"))
        shutil.copyfile(os.path.join(REPO, "Cargo.lock"), os.path.join(d, "Cargo.lock"))
        out, skip = [], False
        for line in open(os.path.join(d, "Cargo.toml")).read().splitlines():
            if line.startswith("[[bench]]") or line.startswith("[dev-dependencies]") or line.startswith("[[example]]"):
                skip = True
                continue
            if line.startswith("["):
                skip = False
            if not skip:
                out.append(line)
        open(os.path.join(d, "Cargo.toml"), "w").write("\n".join(out) + "\n[workspace]\n")
        env = dict(os.environ)
        env["CARGO_NET_OFFLINE"] = "true"
        env.pop("RUSTUP_TOOLCHAIN", None)
        tdir = os.path.join(VERIF, ".cache", "mir-target-" + crate)
        os.utime(os.path.join(d, "src", "lib.rs"))
        cmd = ["cargo", "+nightly", "rustc", "--offline", "--lib", "--target-dir", tdir]
        if features:
            cmd += ["--features", ",".join(features)]
        cmd += ["--", "-Zunpretty=mir", "-C", "debug-assertions=off", "-C", "overflow-checks=on"]
        t = time.time()
        r = subprocess.run(cmd, cwd=d, env=env, stdout=subprocess.PIPE, stderr=subprocess.PIPE, text=True)
        log("  MIR dump (%s): rc=%d, %d lines, %.0fs" % (crate, r.returncode, r.stdout.count("\n"), time.time() - t))
        if r.returncode != 0 or r.stdout.count("\n") < 1000:
            log(r.stderr[-1500:])
            return None
        return r.stdout
    finally:
        shutil.rmtree(scratch, ignore_errors=True)


# ---------------------------------------------------------------------------
# independent big-integer model (Montgomery limbs <-> values)
# ---------------------------------------------------------------------------

def val(l):
    return ((l[0] + l[1] * M64 + l[2] * M64 * M64) * RINV) % P


def mont(v):
    x = (v * R) % P
    return [x % M64, (x >> 64) % M64, x >> 128]


def lj(l):
    return [str(x) for x in l]


def spec(op, c):
    """expected JSON result of op per the big-integer model"""
    a = val([int(x) for x in c["a"]]) if "a" in c else None
    b = val([int(x) for x in c["b"]]) if "b" in c else None
    if op == "add":
        return lj(mont((a + b) % P))
    if op == "sub":
        return lj(mont((a - b) % P))
    if op == "mul":
        return lj(mont((a * b) % P))
    if op == "neg":
        return lj(mont((-a) % P))
    if op == "double":
        return lj(mont((2 * a) % P))
    if op == "square":
        return lj(mont((a * a) % P))
    if op == "invert":
        return None if a == 0 else lj(mont(pow(a, -1, P)))
    if op == "pow":
        return lj(mont(pow(a, int(c["e"]), P)))
    if op == "sqrt":
        if a == 0:
            return lj(mont(0))
        if pow(a, (P - 1) // 2, P) != 1:
            return None
        r = pow(a, (P + 1) // 4, P)
        return ("either", lj(mont(r)), lj(mont(P - r)))
    if op == "from_u64":
        return lj(mont(int(c["v"]) % P))
    if op == "to_repr":
        return a.to_bytes(24, "little").hex()
    if op == "from_repr":
        x = int.from_bytes(bytes.fromhex(c["bytes"]), "little")
        return None if x >= P else lj(mont(x))
    if op == "eq":
        return a == b
    if op == "cmp":
        return "Less" if a < b else ("Greater" if a > b else "Equal")
    if op == "is_odd":
        return a % 2 == 1
    raise KeyError(op)


def lattice():
    pts = set()
    for base in (0, 1, 2, M64, 2**128, P - 1, P, (P - 1) // 2, 12451, 2**127, 2**64 - 1, 2**128 - 1):
        for d in (-2, -1, 0, 1, 2):
            v = base + d
            if 0 <= v < P:
                pts.add(v)
    return sorted(pts)


def vectors(seed, n_rand):
    rnd = random.Random(seed)
    vals = lattice()
    pairs = [(x, y) for x in vals[:24] for y in vals[:24]][::7]
    pairs += [(rnd.randrange(P), rnd.randrange(P)) for _ in range(n_rand)]
    pairs += [(rnd.choice(vals), rnd.randrange(P)) for _ in range(n_rand // 2)]
    # the same lattice on *canonical values* (raw limbs = Montgomery form of the value)
    mvals = [(v * R) % P for v in vals]
    pairs += [(x, y) for x in mvals[:24] for y in mvals[:24]][::5]
    cases = []
    for x, y in pairs:
        # raw limbs = arbitrary valid limb triples (x, y are the raw integers)
        a = [x % M64, (x >> 64) % M64, x >> 128]
        b = [y % M64, (y >> 64) % M64, y >> 128]
        for op in ("add", "sub", "mul"):
            cases.append({"op": op, "a": lj(a), "b": lj(b)})
        for op in ("eq", "cmp"):
            cases.append({"op": op, "a": lj(a), "b": lj(b)})
    for x in vals + mvals + [rnd.randrange(P) for _ in range(n_rand)]:
        a = [x % M64, (x >> 64) % M64, x >> 128]
        for op in ("neg", "double", "square", "to_repr", "invert", "sqrt", "is_odd"):
            cases.append({"op": op, "a": lj(a)})
        cases.append({"op": "pow", "a": lj(a), "e": str(rnd.choice([0, 1, 2, 3, 65537, M64 - 1, rnd.randrange(M64)]))})
    for v in (0, 1, 2, 12450, 12451, M64 - 1, M64 // 2) + tuple(rnd.randrange(M64) for _ in range(8)):
        cases.append({"op": "from_u64", "v": str(v)})
    reprs = [x for x in lattice()] + [P, P + 1, 2**129, 2**191, 2**192 - 1, P + 2**64, 2**128 + 2**64]
    reprs += [rnd.randrange(2**192) for _ in range(n_rand)] + [rnd.randrange(P) for _ in range(n_rand)]
    for x in reprs:
        cases.append({"op": "from_repr", "bytes": x.to_bytes(24, "little").hex()})
    return cases


def native_eval(bins, cases):
    """-> list of JSON results from the real compiled field type (dev profile)"""
    path = os.path.join(tempfile.gettempdir(), "verif_fp_eval_%d.json" % os.getpid())
    with open(path, "w") as f:
        json.dump({"kind": "fp_eval", "cases": cases}, f)
    try:
        out = {}
        for prof, b in bins.items():
            r = subprocess.run([b, path], stdout=subprocess.PIPE, stderr=subprocess.STDOUT, text=True, timeout=600)
            line = [l for l in r.stdout.splitlines() if l.startswith("FP_EVAL ")]
            if not line:
                return None
            out[prof] = json.loads(line[0][8:])
        return out
    finally:
        os.remove(path)


def interp_eval(E, case):
    """run the MIR interpreter on concrete inputs -> JSON result (or None if op not encoded)"""
    from mirsmt import symex
    from mirsmt.symex import Agg, IV, Cell, Ref, Path, Ctx, Exec

    def fp(l):
        return Agg("Fp", [Agg("array", [IV(int(x), "u64") for x in l])])

    def limbs(a):
        return lj([x.t for x in a.f[0].f])
    op = case["op"]
    ctx = Ctx(E.items, prune=False)
    ex = Exec(ctx)
    if op in ("add", "sub", "mul"):
        it = E.item({"add": "add_assign", "sub": "sub_assign", "mul": "mul_assign"}[op], byref=True)
        ca = Cell(fp(case["a"]))
        res = ex.run(it, [Ref(ca), Ref(Cell(fp(case["b"])))], Path())
        return limbs(res[0][2].cell("_1").v.get())
    if op in ("neg",):
        res = ex.run(E.item("neg"), [fp(case["a"])], Path())
        return limbs(res[0][1])
    if op in ("double", "square"):
        res = ex.run(E.item(op), [Ref(Cell(fp(case["a"])))], Path())
        return limbs(res[0][1])
    if op == "to_repr":
        res = ex.run(E.item("to_repr"), [Ref(Cell(fp(case["a"])))], Path())
        return bytes(x.t for x in res[0][1].f[0].f).hex()
    if op == "from_repr":
        b = bytes.fromhex(case["bytes"])
        rp = Agg("FpRepr", [Agg("array", [IV(x, "u8") for x in b])])
        res = ex.run(E.item("from_repr"), [rp], Path())
        v, ch = res[0][1].f
        return limbs(v) if ch.f[0].t == 1 else None
    if op == "from_u64":
        its = [i for i in E.items if i.kind == "fn" and i.name.endswith("::from") and i.params and i.params[0][1] == "u64"]
        res = ex.run(its[0], [IV(int(case["v"]), "u64")], Path())
        return limbs(res[0][1])
    return "n/a"


def model_inputs(raw):
    """parse (get-value ...) output of either solver -> {name: int}"""
    import re
    out = {}
    for _, txt in raw.values():
        for m in re.finditer(r"\((\w+) (\d+)\)", txt):
            out[m.group(1)] = int(m.group(2))
        for m in re.finditer(r"\((\w+) (true|false)\)", txt):
            out[m.group(1)] = (m.group(2) == "true")
        if out:
            break
    return out


def xval(x):
    return int.from_bytes(bytes.fromhex(x[4:]), "little") if isinstance(x, str) else x


def recover_reference(t, shares):
    """textbook model: Err, or 24*k-byte little-endian constant terms"""
    shares = [{"x": xval(s["x"]), "y": s["y"]} for s in shares]
    if not shares:
        return "Err"
    ln = len(shares[0]["y"])
    # the implementation refuses at the first share whose length differs from the first
    seen, vals = [], []
    for s in shares:
        if len(s["y"]) != ln:
            return "Err"
        if s["x"] not in seen:
            seen.append(s["x"])
            vals.append(s)
    if len(vals) < t or t == 0:
        return "Err"
    vals = vals[:t]
    out = b""
    for k in range(ln):
        acc = 0
        for i, si in enumerate(vals):
            f = 1
            for j, sj in enumerate(vals):
                if sj["x"] != si["x"]:
                    f = f * sj["x"] % P * pow((sj["x"] - si["x"]) % P, -1, P) % P
            acc = (acc + f * si["y"][k]) % P
        out += acc.to_bytes(24, "little")
    return out.hex()


def recover_vectors(bins, seed, tier, log):
    """native Sharks::recover vs the textbook model on every point pattern over {0..3}^n"""
    import itertools
    rnd = random.Random(seed)
    cases = []
    for n in range(0, 5):
        for xs in itertools.product((0, 1, 2, 3) if n <= 3 else (1, 2, 3), repeat=n):
            for t in (0, 1, 2, 3, 4):
                if t > n + 1:
                    continue
                ys = [[rnd.randrange(1, 2**63)] for _ in xs]
                cases.append({"t": t, "shares": [{"x": x, "y": y} for x, y in zip(xs, ys)]})
    # unequal lengths / two-element secrets / no-y shares
    for xs in ((1, 2), (2, 1), (1, 2, 3), (1, 1, 2)):
        for pos in range(len(xs)):
            sh = [{"x": x, "y": [5, 6]} for x in xs]
            sh[pos] = {"x": xs[pos], "y": [5]}
            cases.append({"t": 2, "shares": sh})
        cases.append({"t": 2, "shares": [{"x": x, "y": [7 + x, 9 + x]} for x in xs]})
        cases.append({"t": 1, "shares": [{"x": x, "y": []} for x in xs]})
    cases.append({"t": 2**32 - 1, "shares": [{"x": 1, "y": [1]}, {"x": 2, "y": [2]}]})
    # distinct points that agree in their low 64 / low 128 bits (and extreme points)
    hx = lambda v: "hex:" + v.to_bytes(24, "little").hex()
    for a, b in ((1, 2**128 + 1), (5, 2**64 + 5), (2**128, 0), (P - 1, 1), (2**127, 2**127 + 2**64)):
        for t in (1, 2):
            cases.append({"t": t, "shares": [{"x": hx(a), "y": [11]}, {"x": hx(b), "y": [22]}]})
            cases.append({"t": t, "shares": [{"x": hx(b), "y": [11]}, {"x": hx(a), "y": [22]}, {"x": hx(a), "y": [33]}]})
    path = os.path.join(tempfile.gettempdir(), "verif_rec_eval_%d.json" % os.getpid())
    json.dump({"kind": "recover_eval", "cases": cases}, open(path, "w"))
    bad = []
    try:
        for prof, b in bins.items():
            r = subprocess.run([b, path], stdout=subprocess.PIPE, stderr=subprocess.STDOUT, text=True, timeout=900)
            line = [l for l in r.stdout.splitlines() if l.startswith("RECOVER_EVAL ")]
            if not line:
                return None, cases, "native evaluation failed: " + r.stdout[-300:]
            got = json.loads(line[0][13:])
            for c, g in zip(cases, got):
                want = recover_reference(c["t"], c["shares"])
                if g != want:
                    cc = dict(c)
                    cc["kind"] = "recover_case"
                    cc["expect"] = want
                    bad.append(cc)
    finally:
        os.remove(path)
    return bad, cases, ""


def run(obs, tier, seed, log, logdir):
    """-> list of (obligation, status, why, info) for run.py"""
    results = []
    if any(o["name"].startswith("c07::") for o in obs):
        results += run_c07([o for o in obs if o["name"].startswith("c07::")], tier, seed, log, logdir)
    nat = [o for o in obs if o["name"].startswith("native::")]
    if nat:
        results += run_native(nat, tier, seed, log, logdir)
    g = [o for o in obs if o["name"].startswith("ggm::")]
    if g:
        results += run_ggm(g, tier, seed, log, logdir)
    rest = [o for o in obs if not o["name"].startswith(("c07::", "ggm::", "native::"))]
    if rest:
        results += run_recover(rest, tier, seed, log, logdir)
    return results


def e2e_scenarios(seed, tier):
    rnd = random.Random(seed)
    out = []
    ms = [b"", b"m", b"abc", bytes(rnd.randrange(256) for _ in range(300))]
    es = [b"", b"e", b"\x80\x01"]  # empty, text, a binary epoch counter (not UTF-8)
    auxsets = [[None, None, None, None, None], ["", "00ff", None, "01", ""], ["aa" * 200, None, "", "bb", None]]
    sels = {1: [[0], [1, 1], [2, 0, 1]], 2: [[0, 1], [1, 0, 1], [0, 0], [3, 3, 3, 1], [4]], 3: [[0, 1, 2], [0, 1, 0, 2, 3], [2, 2, 1, 1], [0, 1], [4, 3, 2, 1, 0]]}
    for t in (1, 2, 3):
        for m in ms:
            for e in (es if len(m) < 10 else es[:1]):
                for aux in auxsets:
                    for sel in sels[t]:
                        out.append({"kind": "star_e2e", "m": m.hex(), "e": e.hex(), "t": t, "aux": aux, "selection": sel})
    if tier == "quick":
        out = out[::3]
    return out


def c03_scenarios(seed, tier):
    """payload lengths around the Strobe rate (166) and powers of two; keystream reuse *beyond*
    the first block (the first block is the known finding D7 and is not re-reported here)"""
    rnd = random.Random(seed)
    out = []
    for n in (1, 12, 127, 128, 129, 165, 166, 167, 170, 255, 256, 257, 333, 1000):
        key = bytes(rnd.randrange(256) for _ in range(16))
        out.append({"kind": "c03_masking", "key": key.hex(), "data": bytes(rnd.randrange(1, 256) for _ in range(n)).hex()})
    for n in (200, 400):
        a1 = bytes(rnd.randrange(256) for _ in range(n))
        a2 = bytes(b ^ 0x55 for b in a1)
        out.append({"kind": "c03_reuse", "m": "6d", "e": "65", "t": 2, "aux1": a1.hex(), "aux2": a2.hex(), "from_offset": 166})
    return out


def c04_scenarios(seed, tier):
    """pairs of (measurement, epoch, threshold) triples differing in one component, by a
    boundary shift, or only in bytes that are not valid UTF-8; plus non-zero output buffers"""
    ms = [b"", b"m", b"me", b"m\x80"]
    es = [b"", b"e", b"\x80", b"\xff", b"\xef\xbf\xbd", b"e\x80", b"\xc0\x80", b"ee"]
    ts = [1, 2, 257, 258, 65537, 65538, 2**32 - 1]
    base = [(m, e, t) for m in ms for e in es for t in (1, 2)] + [(b"m", b"e", t) for t in ts]
    out = []
    for i, a in enumerate(base):
        for b in base[i:]:
            diff = sum(1 for x, y in zip(a, b) if x != y)
            if diff > 1 and a[0] + a[1] != b[0] + b[1]:
                continue
            out.append({"kind": "c04_triples", "m1": a[0].hex(), "e1": a[1].hex(), "t1": a[2], "m2": b[0].hex(), "e2": b[1].hex(), "t2": b[2]})
    out.append({"kind": "c04_triples", "m1": "6d", "e1": "65", "t1": 2, "m2": "6d", "e2": "65", "t2": 2, "init1": "00" * 32, "init2": "ff" * 32})
    if tier == "quick":
        out = out[::2] + out[-1:]
    return out


def c05_scenarios(seed, tier):
    """every byte of the first (ciphertext-supplying) share flipped, t = 1, 2, with exactly t and
    with surplus shares; the recorded threshold raised to the number of shares present"""
    out = []
    n_enc = 4 + 4 + 48 + 4 + 3 + 4 + 2 + 64
    for t, n in ((1, 1), (2, 2), (2, 3)):
        step = 1 if tier != "quick" else 3
        for pos in range(0, n_enc, step):
            # threshold 1: the polynomial is constant, the point (bytes 8..32) influences nothing and
            # is not authenticated; the outcome is still exactly the message (first clause of C05)
            rej = not (t == 1 and 8 <= pos < 32)
            out.append({"kind": "adss_scenario", "m": "010203", "r": "0405", "t": t, "n_shares": n, "fault_lo": pos, "fault_hi": pos + 1,
                        "fault_bytes": "", "flip": True, "must_reject": rej})
    # several bytes of one field altered at once: the same xor mask on two / four bytes (adjacent, far
    # apart), the whole field complemented, two bytes swapped — alterations that cancel in any
    # comparison that folds the bytes (xor / sum) before testing
    fields = {"threshold": (0, 4), "c": (60, 63), "d": (67, 69), "j": (69, 133)}
    rnd = random.Random(seed)
    for t, n in ((1, 1), (2, 2)):
        for name, (lo, hi) in fields.items():
            w = hi - lo
            pats = []
            for mask in (0x01, 0x80, 0xff):
                for a, b in ((0, 1), (0, w - 1), (w // 2 - 1, w // 2)) + ((tuple(sorted(rnd.sample(range(w), 2))),) if w > 2 else ()):
                    if a != b and 0 <= a < b < w:
                        x = bytearray(w); x[a] = mask; x[b] = mask
                        pats.append(bytes(x))
                if w >= 4:
                    x = bytearray(w)
                    for i in (0, 1, w - 2, w - 1):
                        x[i] = mask
                    pats.append(bytes(x))
                pats.append(bytes([mask]) * w)
            if tier == "quick":
                pats = pats[::2]
            for x in pats:
                out.append({"kind": "adss_scenario", "m": "010203", "r": "0405", "t": t, "n_shares": n, "fault_lo": lo, "fault_hi": lo,
                            "fault_bytes": "", "xor": x.hex(), "must_reject": True, "nofix": True})
            for a, b in ((lo, hi - 1), (lo, lo + 1)):
                out.append({"kind": "adss_scenario", "m": "010203", "r": "0405", "t": t, "n_shares": n, "fault_lo": lo, "fault_hi": lo,
                            "fault_bytes": "", "swap": [a, b], "must_reject": True, "nofix": True})
    for t in (1, 2, 3):
        out.append({"kind": "adss_mixed", "ma": "0a0b", "ra": "01", "mb": "0c0d0e", "rb": "02", "t": t, "rounds": 4 if tier == "quick" else 12})
    out.append({"kind": "adss_mixed", "ma": "0a0b", "ra": "01", "mb": "0a0b", "rb": "02", "t": 2, "rounds": 4})
    for t, n in ((1, 2), (1, 3), (2, 3), (2, 4)):
        out.append({"kind": "adss_scenario", "m": "010203", "r": "0405", "t": t, "n_shares": n, "fault_lo": 0, "fault_hi": 4,
                    "fault_bytes": n.to_bytes(4, "little").hex(), "must_reject": True})
    return out


def c16_scenarios(seed, tier):
    rnd = random.Random(seed)
    out = []
    for ml, rl in ((0, 0), (1, 1), (4, 0), (0, 4), (32, 32), (300, 7)):
        m = bytes(rnd.randrange(256) for _ in range(ml))
        r = bytes(rnd.randrange(256) for _ in range(rl))
        for t in (1, 2, 3):
            out.append({"kind": "adss_scenario", "m": m.hex(), "r": r.hex(), "t": t, "n_shares": t, "expect_ok": True})
            out.append({"kind": "adss_scenario", "m": m.hex(), "r": r.hex(), "t": t, "n_shares": t + 2, "expect_ok": True})
        out.append({"kind": "adss_scenario", "m": m.hex(), "r": r.hex(), "t": 0, "n_shares": 2})
        out.append({"kind": "adss_scenario", "m": m.hex(), "r": r.hex(), "t": 2, "n_shares": 2, "custom_transcript": True})
        m2 = bytes([m[0] ^ 1]) + m[1:] if ml else b"x"
        out.append({"kind": "adss_coeffs", "m": m.hex(), "r": r.hex(), "m2": m2.hex(), "r2": r.hex()})
        r2 = bytes([r[0] ^ 1]) + r[1:] if rl else b"y"
        out.append({"kind": "adss_coeffs", "m": m.hex(), "r": r.hex(), "m2": m.hex(), "r2": r2.hex()})
    return out


def c06_scenarios(seed, tier):
    out = [{"kind": "gen_script", "t": 2, "words": [0] * (3 * k) + [5, 0, 0]} for k in (0, 1, 2, 3, 5)]
    # candidates p-1, p-2, 1, 2^64, 2^128 (a point derived from the draw by +-1 must not hit 0 either)
    for w in ([12450, 0, 1], [12449, 0, 1], [1, 0, 0], [0, 1, 0], [0, 0, 1], [2**64 - 1, 2**64 - 1, 0],
              [0, 12451, 0], [12451, 18446744073709539165, 0], [12451, 18446744073709526714, 0]):  # raw limbs are Montgomery form: -1, 1, 2
        out.append({"kind": "gen_script", "t": 2, "words": [str(x) for x in w] + ["7", "0", "0"]})
    out += [{"kind": "dealer_draws", "t": t, "elements": e} for t in (1, 2, 3, 255, 256, 257, 65535, 65536, 65537) for e in (1, 2)]
    return out


def server_scenarios(seed, tier):
    rnd = random.Random(seed)
    hist = [[], [0], [255], [1], [0, 128], [128, 0], [1, 2], [2, 2], [0, 255, 1], [127, 255], [3, 2, 1]]
    if tier != "quick":
        hist += [[rnd.randrange(256) for _ in range(rnd.randrange(1, 7))] for _ in range(20)]
        hist += [[a, a ^ 0x80] for a in (0, 1, 2, 127, 255)] + [[a ^ 0x80, a] for a in (0, 1, 2, 127, 255)]
    out = []
    for reg in ([0, 255], [1, 2], [], [5, 5, 9], list(range(0, 256, 37))):
        for ps in hist:
            for md, dec in ((0, True), (1, True), (255, True), (7, False)):
                out.append({"kind": "server_history", "registered": reg, "punctures": ps, "md": md, "decodable": dec})
    return out


def c08_scenarios(seed, tier):
    """synthetic encodings of the documented layout with boundary field elements (0, 1, p-1, p,
    p+1, 2^128, 2^192-1, high bytes set), truncations, trailing bytes, spliced shares and edited
    length prefixes; expected verdict and canonical form from the independent reference parser"""
    from vlib import refparse
    rnd = random.Random(seed)
    le = lambda v: v.to_bytes(24, "little")
    elems = [0, 1, 12450, P - 1, P, P + 1, 2**128, 2**128 + 12452, 2**129, 2**192 - 1, 2**64, rnd.randrange(P), (1 << 191)]
    cases = []

    def add(fn, b):
        ref = {"sharks": refparse.sharks, "share": refparse.share, "message": refparse.message}[fn](b)
        c = {"kind": "c08_decode", "fn": fn, "bytes": b.hex(), "expect_accept": ref is not None}
        if ref is not None:
            c["expect_canon"] = ref.hex()
        cases.append(c)
    # Shamir shares: x | y* with every boundary element at every position, tails of 0..23 bytes
    for e in elems:
        add("sharks", le(e))
        add("sharks", le(5) + le(e))
        add("sharks", le(e) + le(7))
        add("sharks", le(5) + le(6) + le(e))
        add("sharks", le(5) + le(e) + le(6))
    for tail in (1, 7, 23):
        add("sharks", le(5) + le(6) + bytes([0xaa] * tail))
        add("sharks", le(5)[:24 - tail])
    add("sharks", b"")

    def mk_share(t, sh, c, d, j=None):
        st = lambda x: len(x).to_bytes(4, "little") + x
        return t.to_bytes(4, "little") + st(sh) + st(c) + st(d) + (j if j is not None else bytes([0x5a] * 64))
    base_sh = le(3) + le(99)
    good = mk_share(2, base_sh, b"\x01\x02\x03", b"\x04")
    add("share", good)
    for e in elems:
        add("share", mk_share(2, le(e) + le(9), b"\x01", b""))
        add("share", mk_share(1, le(4) + le(e), b"", b"\x02\x03"))
    for n in range(0, len(good) + 1, 1 if tier != "quick" else 3):
        add("share", good[:n])
    for extra in (1, 4, 64, 65):
        add("share", good + bytes([0x11] * extra))
        add("share", mk_share(2, base_sh, b"\x01", b"\x02", bytes([0x5a] * 64) + bytes(extra)))
    add("share", mk_share(2, base_sh, b"", b"", bytes([0x5a] * 63)))
    add("share", mk_share(2, base_sh + b"\x00" * 5, b"\x01", b"\x02"))       # ignored tail inside the Shamir chunk
    add("share", mk_share(0xffffffff, le(1), b"", b""))
    for off in (4, 4 + 4 + len(base_sh), 4 + 4 + len(base_sh) + 4 + 3):
        for v in (0, 1, 0xffffffff, 0xfffffffc, len(good), len(good) - off - 4):
            m = bytearray(good)
            m[off:off + 4] = (v & 0xffffffff).to_bytes(4, "little")
            add("share", bytes(m))
    # reports: ciphertext | share | tag
    st = lambda x: len(x).to_bytes(4, "little") + x
    msg = st(b"\xc1\xc2\xc3\xc4\xc5") + st(good) + st(bytes([0x77] * 32))
    add("message", msg)
    add("message", msg + b"\x00\x01")
    add("message", st(b"") + st(good) + st(b""))
    add("message", st(b"\x01") + st(good + b"\x00") + st(b"\x02"))               # share chunk longer than the share
    add("message", st(b"\x01") + st(good[:-1]) + st(b"\x02"))
    add("message", st(b"\x01") + st(mk_share(2, le(P) + le(1), b"", b"")) + st(b"\x02"))
    for n in range(0, len(msg), 1 if tier != "quick" else 5):
        add("message", msg[:n])
    for off in (0, 4 + 5, 4 + 5 + 4 + len(good)):
        for v in (0, 3, 4, 0xffffffff, 0xfffffffc, len(msg)):
            m = bytearray(msg)
            m[off:off + 4] = (v & 0xffffffff).to_bytes(4, "little")
            add("message", bytes(m))
    return cases


NATIVE_FAMILIES = {
    "native::c08-decoders": c08_scenarios,
    "native::e2e-scenarios": lambda seed, tier: e2e_scenarios(seed, tier),
    "native::c03-lengths": c03_scenarios,
    "native::c04-triples": c04_scenarios,
    "native::c05-faults": c05_scenarios,
    "native::c16-scenarios": c16_scenarios,
    "native::c06-dealer-gen": c06_scenarios,
    "native::ggm-sweep": lambda seed, tier: [{"kind": "ggm_sweep", "seed": s} for s in ([seed] if tier == "quick" else [seed, seed + 1, seed + 2, seed + 3])],
    "native::server-histories": lambda seed, tier: server_scenarios(seed, tier),
    "native::c09-foreign-input": lambda seed, tier: [{"kind": "c09_foreign", "seed": s} for s in ([seed] if tier == "quick" else [seed, seed + 1, seed + 2])],
}


def run_native(obs, tier, seed, log, logdir):
    """concrete end-to-end scenarios on the natively compiled crates (cross-check)"""
    import run as runmod
    bins = runmod.build_replay()
    results = []
    for o in obs:
        t1 = time.time()
        if not bins:
            results.append((o, "inconclusive", "replay binary unavailable", {"wall_s": 0}))
            continue
        cases = NATIVE_FAMILIES[o["name"]](seed, tier)
        bad = []
        tmp = os.path.join(tempfile.gettempdir(), "verif_e2e_%d.json" % os.getpid())
        for c in cases:
            json.dump(c, open(tmp, "w"))
            r = subprocess.run([bins["release"], tmp], stdout=subprocess.PIPE, stderr=subprocess.STDOUT, text=True, timeout=300)
            if r.returncode == 1:
                bad.append(c)
            elif r.returncode != 0:
                results.append((o, "inconclusive", "scenario runner failed: " + r.stdout[-200:], {"wall_s": 0}))
                bad = None
                break
        if os.path.exists(tmp):
            os.remove(tmp)
        if bad is None:
            continue
        info = {"wall_s": round(time.time() - t1, 1), "queries": len(cases)}
        if bad:
            info["playback_cases"] = bad[:3]
            results.append((o, "fail", "%d/%d native scenarios fail, e.g. %s" % (len(bad), len(cases), json.dumps(bad[0])[:200]), info))
            log("  [FAIL] %s: %d/%d scenarios" % (o["name"], len(bad), len(cases)))
        else:
            results.append((o, "pass", "", info))
            log("  [PASS] %-40s %6.1fs  %d scenarios" % (o["name"], info["wall_s"], len(cases)))
    return results


class mem_cap:
    """soft address-space cap while the in-process interpreter runs: a change that sends it into
    unbounded growth ends in MemoryError (reported as inconclusive), not in the OOM killer"""

    def __init__(self, gb):
        self.gb = gb

    def __enter__(self):
        import resource
        self.old = resource.getrlimit(resource.RLIMIT_AS)
        soft = self.gb << 30
        if self.old[1] != resource.RLIM_INFINITY:
            soft = min(soft, self.old[1])
        resource.setrlimit(resource.RLIMIT_AS, (soft, self.old[1]))

    def __exit__(self, *a):
        import resource
        resource.setrlimit(resource.RLIMIT_AS, self.old)
        return False


def run_ggm(obs, tier, seed, log, logdir):
    """C10 / C11 / C14: symbolic execution of ppoprf's MIR (see mirsmt/ggm.py)"""
    with mem_cap(int(os.environ.get("VERIF_ENGINE_M_GB", "20"))):
        return _run_ggm(obs, tier, seed, log, logdir)


def _run_ggm(obs, tier, seed, log, logdir):
    from mirsmt import c07, ggm
    results = []
    t0 = time.time()
    mir_text = dump_mir(log, "ppoprf")
    if mir_text is None:
        return [(o, "inconclusive", "MIR dump of ppoprf failed", {"wall_s": 0}) for o in obs]
    for o in obs:
        t1 = time.time()
        info = {"wall_s": 0}
        try:
            E = c07.Engine("", log=lambda *_: None)
            E.qdir = os.path.join(VERIF, ".cache", "smt-queries-ggm")
            shutil.rmtree(E.qdir, ignore_errors=True)
            R = ggm.Run(mir_text)
            kind, k = o["ggm"]
            st = ggm.obligations(E, R, k) if kind == "history" else ggm.server_obligations(E, R, k)
            done = E.flush(cap_s=120)
            want = o.get("tags")  # restrict this obligation to query families (c10:: / c11:: / c14::)
            mine = [q for q in done if want is None or q["tag"][0].startswith(tuple(want))]
            bad = [q for q in mine if q["expect"] == "unsat" and q["verdict"] != "unsat"]
            feas = [q for q in mine if q["expect"] == "sat"]
            nfeas = sum(1 for q in feas if q["verdict"] == "sat")
            info = {"wall_s": round(time.time() - t1, 1), "solver_s": round(E.solver_s, 1), "queries": len(mine),
                    "feasible_paths": nfeas, "symbolic_execution": st}
            if not bad and nfeas > 0 and nfeas == len(feas):
                stt, why = "pass", ""
            elif any(q["verdict"] == "sat" for q in bad):
                q = [q for q in bad if q["verdict"] == "sat"][0]
                mi = model_inputs(q["raw"])
                stt, why = "fail", "%s: %s" % (q["tag"][0], q["tag"][2])
                info["playback_cases"] = [ggm_case(mi, k, q["tag"])] + (server_cases(mi, k, q["tag"]) if q["tag"][0].startswith("c14::") else [])
                info["model"] = mi
            else:
                stt = "inconclusive"
                why = ("%d queries without a definite answer, e.g. %s %s" % (len(bad), bad[0]["tag"], bad[0]["answers"])) if bad else \
                      "only %d of %d paths shown feasible" % (nfeas, len(feas))
        except Exception as e:  # noqa
            stt, why = "inconclusive", "MIR interpreter does not support the current source of ppoprf::ggm: %r" % (e,)
            info = {"wall_s": round(time.time() - t1, 1)}
        results.append((o, stt, why, info))
        log("  [%s] %-40s %6.1fs  %s" % (stt.upper()[:4], o["name"], info.get("wall_s", 0), why[:200]))
    return results


def ggm_case(mi, k, tag):
    """solver model (bits of p1..pk and y) -> native replay case"""
    def byte(name):
        import re
        v = 0
        for i in range(8):
            b = mi.get("%s_%d" % (name, i))
            if b in (1, True, "true"):
                v |= 1 << i
        return v
    return {"kind": "ggm_history", "punctures": [byte("p%d" % i) for i in range(1, k + 1)], "probe": byte("y"),
            "claim": "%s: %s" % (tag[0], tag[2])}


def server_cases(mi, k, tag):
    """solver model of a c14:: query (tag bits t1..tk, request tag md, decodability) -> native case"""
    import re
    def byte(name):
        v = 0
        for i in range(8):
            if mi.get("%s_%d" % (name, i)) in (1, True, "true"):
                v |= 1 << i
        return v
    m = re.search(r"reg=\[([0-9, ]*)\]", tag[0])
    reg = [int(x) for x in m.group(1).split(",") if x.strip()] if m else []
    ps = [byte("t%d" % i) for i in range(1, k + 1)]
    dec = mi.get("decodable") in (1, True, "true")
    cs = [{"kind": "server_history", "registered": reg, "punctures": ps, "md": byte("md"), "decodable": dec, "claim": "%s: %s" % (tag[0], tag[2])}]
    if not dec:
        cs.append(dict(cs[0], decodable=True))
    return cs


def run_recover(obs, tier, seed, log, logdir):
    from mirsmt import c07, c06_recover
    import run as runmod
    results = []
    by = {o["name"]: o for o in obs}
    t0 = time.time()
    mir_text = dump_mir(log)
    bins = runmod.build_replay()
    o = by.get("mir::recover-structure")
    if o is not None:
        if mir_text is None:
            results.append((o, "inconclusive", "MIR dump failed", {"wall_s": 0}))
        else:
            try:
                E = c07.Engine(mir_text, log=lambda *_: None)
                E.qdir = os.path.join(VERIF, ".cache", "smt-queries-recover")
                shutil.rmtree(E.qdir, ignore_errors=True)
                with mem_cap(int(os.environ.get("VERIF_ENGINE_M_GB", "20"))):
                    ncases = c06_recover.obligations(E, n_max=3 if tier == "quick" else 4)
                done = E.flush(cap_s=120)
                bad = [q for q in done if q["expect"] == "unsat" and q["verdict"] != "unsat"]
                feas = sum(1 for q in done if q["expect"] == "sat" and q["verdict"] == "sat")
                info = {"wall_s": round(time.time() - t0, 1), "solver_s": round(E.solver_s, 1), "queries": len(done),
                        "cases": ncases, "feasible_paths": feas}
                if not bad and feas > 0:
                    st, why = "pass", ""
                elif any(q["verdict"] == "sat" for q in bad):
                    q = [q for q in bad if q["verdict"] == "sat"][0]
                    st, why = "fail", "%s: solver model %s" % (q["tag"], model_inputs(q["raw"]))
                    info["playback_cases"] = []  # concrete reproduction comes from recover-vectors
                else:
                    st, why = "inconclusive", "%d queries without a definite answer, e.g. %s %s" % (len(bad), bad[0]["tag"], bad[0]["answers"])
            except Exception as e:  # noqa
                st, why, info = "inconclusive", "MIR interpreter does not support the current source of Sharks::recover: %r" % (e,), {"wall_s": round(time.time() - t0, 1)}
            results.append((o, st, why, info))
            log("  [%s] %-40s %6.1fs  %s" % (st.upper()[:4], o["name"], info.get("wall_s", 0), why[:200]))
    o = by.get("mir::dealer-threshold")
    if o is not None:
        t1 = time.time()
        if mir_text is None:
            results.append((o, "inconclusive", "MIR dump failed", {"wall_s": 0}))
        else:
            try:
                from mirsmt import dealer
                E = c07.Engine(mir_text, log=lambda *_: None)
                E.qdir = os.path.join(VERIF, ".cache", "smt-queries-dealer")
                shutil.rmtree(E.qdir, ignore_errors=True)
                with mem_cap(int(os.environ.get("VERIF_ENGINE_M_GB", "20"))):
                    ncases = dealer.obligations(E, nels=(1, 2), n_iter=4 if tier == "quick" else 8)
                done = E.flush(cap_s=120)
                bad = [q for q in done if q["expect"] == "unsat" and q["verdict"] != "unsat"]
                feas = [q for q in done if q["expect"] == "sat"]
                nfeas = sum(1 for q in feas if q["verdict"] == "sat")
                info = {"wall_s": round(time.time() - t1, 1), "solver_s": round(E.solver_s, 1), "queries": len(done),
                        "cases": ncases, "feasible_paths": nfeas}
                if not bad and nfeas > 0 and nfeas == len(feas):
                    st, why = "pass", ""
                elif any(q["verdict"] == "sat" for q in bad):
                    sat = [q for q in bad if q["verdict"] == "sat"]
                    ts = []
                    for q in sat:
                        mi = model_inputs(q["raw"])
                        if "T" in mi and mi["T"] not in ts:
                            ts.append(mi["T"])
                    st, why = "fail", "%s: solver model T=%s" % (sat[0]["tag"], ts[:4])
                    info["playback_cases"] = [{"kind": "dealer_draws", "t": t, "elements": 1} for t in ts[:4]]
                else:
                    st, why = "inconclusive", "%d queries without a definite answer, e.g. %s %s" % (len(bad or feas), (bad or feas)[0]["tag"], (bad or feas)[0].get("answers"))
            except Exception as e:  # noqa
                st, why, info = "inconclusive", "MIR interpreter does not support the current source of Sharks::dealer_rng / random_polynomial: %r" % (e,), {"wall_s": round(time.time() - t1, 1)}
            results.append((o, st, why, info))
            log("  [%s] %-40s %6.1fs  %s" % (st.upper()[:4], o["name"], info.get("wall_s", 0), why[:200]))
    o = by.get("mir::recover-vectors")
    if o is not None:
        t1 = time.time()
        if not bins:
            results.append((o, "inconclusive", "replay binary unavailable", {"wall_s": 0}))
        else:
            bad, cases, err = recover_vectors(bins, seed, tier, log)
            info = {"wall_s": round(time.time() - t1, 1), "queries": len(cases)}
            if bad is None:
                results.append((o, "inconclusive", err, info))
            elif bad:
                info["playback_cases"] = bad[:3]
                results.append((o, "fail", "Sharks::recover disagrees with the textbook model on %d/%d share lists, e.g. t=%s %s" % (len(bad), len(cases), bad[0]["t"], bad[0]["shares"]), info))
                log("  [FAIL] %s: %d/%d disagree" % (o["name"], len(bad), len(cases)))
            else:
                results.append((o, "pass", "", info))
                log("  [PASS] %-40s %6.1fs  %d share lists" % (o["name"], info["wall_s"], len(cases)))
    return results


def run_c07(obs, tier, seed, log, logdir):
    """-> list of (obligation, status, why, info) for run.py"""
    from mirsmt import c07
    t0 = time.time()
    results = []
    by = {o["name"]: o for o in obs}

    def emit(name, status, why, info):
        o = by.get(name)
        if o is None:
            return
        results.append((o, status, why, info))
        log("  [%s] %-40s %6.1fs  %s" % (status.upper()[:4], name, info.get("wall_s", 0), why[:160]))

    mir_text = dump_mir(log)
    if mir_text is None:
        for o in obs:
            results.append((o, "inconclusive", "MIR dump failed", {"wall_s": 0}))
        return results
    E = c07.Engine(mir_text, log=lambda *_: None)
    E.qdir = os.path.join(VERIF, ".cache", "smt-queries")
    shutil.rmtree(E.qdir, ignore_errors=True)

    # ---- native binary for validation / replay --------------------------------
    import run as runmod
    bins = runmod.build_replay()

    # ---- translator validation on concrete vectors ----------------------------
    tv = time.time()
    n_rand = 40 if tier == "quick" else 200
    cases = vectors(seed, n_rand)
    nat = native_eval(bins, cases) if bins else None
    val_info = {"wall_s": 0, "queries": 0}
    native_viol = []
    if nat is None:
        emit("c07::translator-validation", "inconclusive", "native evaluation binary unavailable", val_info)
    else:
        bad_tr, compared, bad_spec = [], 0, []
        for i, c in enumerate(cases):
            real = nat["dev"][i]
            if nat["release"][i] != real:
                bad_spec.append((c, "dev/release disagree: %s vs %s" % (real, nat["release"][i])))
            try:
                enc = interp_eval(E, c)
            except Exception as e:  # noqa
                enc = "ERR:%r" % (e,)
            if enc != "n/a":
                compared += 1
                if enc != real:
                    bad_tr.append((c, enc, real))
            exp = spec(c["op"], c)
            okspec = (real in exp[1:]) if isinstance(exp, tuple) else (real == exp)
            if not okspec:
                bad_spec.append((c, "real=%s model=%s" % (real, exp)))
                cc = dict(c)
                cc["kind"] = "fp_op"
                cc["expect"] = exp[1] if isinstance(exp, tuple) else exp
                native_viol.append(cc)
        val_info = {"wall_s": round(time.time() - tv, 1), "queries": compared,
                    "vectors": len(cases), "encoded_vs_native_compared": compared}
        if bad_tr:
            emit("c07::translator-validation", "inconclusive",
                 "translator broken: MIR interpreter and native code disagree on %d/%d vectors, e.g. %s" % (len(bad_tr), compared, bad_tr[0]), val_info)
        else:
            emit("c07::translator-validation", "pass", "", val_info)
        # native vs big-integer model on the vectors (also covers invert / sqrt / pow values)
        o = by.get("c07::vectors-vs-bigint-model")
        if o is not None:
            info = {"wall_s": val_info["wall_s"], "queries": len(cases), "playback_cases": native_viol[:3]}
            if bad_spec:
                results.append((o, "fail", "real field code disagrees with the big-integer model on %d vectors, e.g. %s" % (len(bad_spec), bad_spec[0]), info))
                log("  [FAIL] c07::vectors-vs-bigint-model  %s" % (bad_spec[0],))
            else:
                emit("c07::vectors-vs-bigint-model", "pass", "", info)
    translator_ok = not any(o["name"] == "c07::translator-validation" and st != "pass" for o, st, _, _ in results)

    # ---- symbolic obligations ---------------------------------------------------
    r = c07.run_all(E, log=lambda *_: None)
    for s in r["summary"]:
        name = "c07::" + s["fn"]
        info = {"wall_s": s["solver_s"], "solver_s": s["solver_s"], "queries": s["queries"],
                "feasible_paths": s["feasible_paths"]}
        st = s["status"]
        why = ""
        if st != "pass":
            tag, kind, ans, raw = s["bad"][0]
            why = "%s: %s %s" % (tag, kind, ans)
            if st == "fail":
                # candidate counterexample from the solver model -> concrete replay case
                mi = model_inputs(raw)
                info["playback_cases"] = cases_from_model(s["fn"], mi)
                info["model"] = mi
        if st == "pass" and not translator_ok:
            st, why = "inconclusive", "translator validation did not pass; encoding not trusted"
        emit(name, st, why, info)
    # ground obligations (constants, addition chains)
    gbad = [(n, d) for n, ok, d in r["ground"] if not ok]
    consts = [g for g in r["ground"] if not g[0].startswith(("invert", "sqrt"))]
    chains = [g for g in r["ground"] if g[0].startswith(("invert", "sqrt"))]
    for nm, group in (("c07::constants", consts), ("c07::addition-chains", chains)):
        bad = [(n, d) for n, ok, d in group if not ok]
        info = {"wall_s": 0.0, "queries": len(group), "ground": [[n, ok, d[:120]] for n, ok, d in group]}
        need = ["invert computes", "invert flag", "sqrt computes", "sqrt flag"] if nm == "c07::addition-chains" else []
        missing = [n for n in need if not any(g0[0].startswith(n) for g0 in group)]
        if missing and not bad:
            emit(nm, "inconclusive", "not evaluated (the interpreter could not follow the current source): %s" % ", ".join(missing), info)
            continue
        if bad:
            cs = []
            if nm == "c07::constants":
                cs = [{"kind": "fp_const", "failed": [n for n, _ in bad]}]
            info["playback_cases"] = cs
            emit(nm, "fail", "; ".join("%s (%s)" % b for b in bad)[:300], info)
        elif not group:
            emit(nm, "inconclusive", "no ground obligations evaluated", info)
        else:
            emit(nm, "pass", "", info)
    # obligations registered but not produced (e.g. item missing from the MIR)
    seen = {o["name"] for o, *_ in results}
    for o in obs:
        if o["name"] not in seen:
            results.append((o, "inconclusive", "obligation produced no result (function not found in MIR / translator unsupported)", {"wall_s": 0}))
            log("  [INCO] %s: no result" % o["name"])
    log("  Engine M: %d SMT queries, solver %.0fs, wall %.0fs" % (r["queries"], r["solver_s"], time.time() - t0))
    return results


def cases_from_model(fn, mi):
    """turn a solver model (limb values) into fp_op replay cases with the expected value
    of the big-integer model"""
    def limbs(p):
        return [mi.get("%s%d" % (p, i), 0) for i in range(3)]
    a, b = limbs("a"), limbs("b")
    ops = {"add_assign": ["add"], "sub_assign": ["sub"], "mul_assign": ["mul"], "square": ["square"],
           "neg": ["neg"], "double": ["double"], "to_repr": ["to_repr"], "cmp_native": ["cmp"],
           "is_valid": [], "from_repr": ["from_repr"], "from_u64": ["from_u64"]}.get(fn, [])
    out = []
    for op in ops:
        c = {"kind": "fp_op", "op": op}
        if op == "from_repr":
            bs = bytes(mi.get("x%d" % i, 0) for i in range(24))
            c["bytes"] = bs.hex()
        elif op == "from_u64":
            c["v"] = str(mi.get("v", 0))
        else:
            la = a[0] + a[1] * M64 + a[2] * M64 * M64
            lb = b[0] + b[1] * M64 + b[2] * M64 * M64
            if la >= P or lb >= P:
                continue
            c["a"] = lj(a)
            c["b"] = lj(b)
        e = spec(op, c)
        c["expect"] = e[1] if isinstance(e, tuple) else e
        out.append(c)
    return out
