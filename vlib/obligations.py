"""Obligation tables: what the solver is asked, per property and tier.

Each obligation: name, engine, harness, cap (seconds; (quick, thorough) or one value),
must_cover (reachability witnesses that must be SATISFIED; None = all covers of the
harness), claim / bounds / functions / stubs (copied into the evidence) and `to_case`
(maps a solver counterexample to a native replay case).
"""

STUB_DOC = {
    "barrier_noop": "zeroize::optimization_barrier (inline asm) -> no-op",
    "fp_from_repr_spec": "<Fp as PrimeField>::from_repr -> its C07-proved specification (accept iff little-endian integer < p; limbs abstracted)",
    "fp_to_repr_spec": "<Fp as PrimeField>::to_repr -> inverse of fp_from_repr_spec (C07)",
}


def flat_bytes(info, n=None):
    """Concatenate the concrete kani::any() values of the first failing-check test."""
    pbs = info.get("playback") or []
    # prefer a test generated for a failed check, not for a cover
    pbs = [t for t in pbs if "cover" not in t["for"]] or pbs
    if not pbs:
        return None
    b = b"".join(pbs[0]["vals"])
    return b if n is None else b[:n]


def case_decode(fn, n):
    def f(o, info):
        b = flat_bytes(info, n)
        if b is None or len(b) < n:
            return []
        return [{"kind": "panic_decode", "fn": fn, "bytes": b.hex()}]
    return f


def K(name, harness=None, cap=600, tier="q", **kw):
    d = {"name": name, "engine": "kani", "harness": harness or name, "cap": cap, "tier": tier}
    d.update(kw)
    return d


def c09(tier, seed):
    obs = []
    dec_stubs = ["barrier_noop", "fp_from_repr_spec"]
    obs.append(K("c09::c09_load_helpers", cap=300, claim="adss::load_u32 / load_bytes / AccessStructure::from_bytes never panic; load_bytes result lies inside the buffer",
                 bounds="every buffer length 0..=12 (symbolic length), every byte content, header = any u32",
                 functions=["adss::load_u32", "adss::load_bytes", "adss::AccessStructure::from_bytes"],
                 stubs=["barrier_noop"],
                 # symbolic length n comes after the 12 buffer bytes
                 to_case=lambda o, info: (lambda b: [{"kind": "panic_decode", "fn": "adss::load_bytes", "bytes": b[:min(12, int.from_bytes(b[12:20], "little"))].hex()}] if b and len(b) >= 20 else [])(flat_bytes(info))))
    q_sharks = [0, 24, 48]
    for n in [0, 23, 24, 25, 47, 48, 72]:
        obs.append(K("c09::c09_sharks_try_from_%d" % n, cap=400, tier="q" if n in q_sharks else "t",
                     must_cover=["accepted"] if n >= 24 else [] + ["rejected"],
                     claim="star_sharks::Share::try_from never panics",
                     bounds="all 2^(8*%d) byte strings of length %d" % (n, n),
                     functions=["star_sharks::Share::try_from"], stubs=dec_stubs,
                     to_case=case_decode("star_sharks::Share::try_from", n)))
    q_share = [0, 3, 8, 104]
    for n in [0, 3, 4, 7, 8, 16, 79, 80, 103, 104, 108, 128]:
        obs.append(K("c09::c09_share_from_bytes_%d" % n, cap=(600, 1500), tier="q" if n in q_share else "t",
                     must_cover=(["accepted"] if n >= 104 else []) + ["rejected"],
                     claim="sta_rs::Share::from_bytes / adss::Share::from_bytes never panic (inner length headers symbolic: truncation, inconsistent and huge headers included)",
                     bounds="all byte strings of length %d" % n,
                     functions=["sta_rs::Share::from_bytes", "adss::Share::from_bytes", "adss::load_bytes", "star_sharks::Share::try_from"],
                     stubs=dec_stubs, to_case=case_decode("sta_rs::Share::from_bytes", n)))
    q_msg = [0, 4, 12, 116]
    for n in [0, 3, 4, 8, 11, 12, 115, 116, 120]:
        obs.append(K("c09::c09_message_from_bytes_%d" % n, cap=(600, 1500), tier="q" if n in q_msg else "t",
                     must_cover=(["accepted"] if n >= 116 else []) + ["rejected"],
                     claim="sta_rs::Message::from_bytes never panics",
                     bounds="all byte strings of length %d" % n,
                     functions=["sta_rs::Message::from_bytes", "sta_rs::Share::from_bytes", "adss::load_bytes"],
                     stubs=dec_stubs, to_case=case_decode("sta_rs::Message::from_bytes", n)))
    return {
        "obligations": obs,
        "level": "model_checking",
        "bounds": "input lengths from the listed finite sets (<= 128 bytes), contents fully symbolic",
        "outside": "inputs longer than the listed lengths; allocation failure; panics inside Keccak/curve25519 internals replaced by stubs",
        "assumptions": ["stubs listed under coverage.stubs behave within their documented contract",
                        "Fp::from_repr/to_repr are panic-free and meet their specification (decided separately by C07)"],
        "trusted_base": ["Kani 0.68 / CBMC 6.11 / CaDiCaL", "rustc MIR of the pinned Kani toolchain"],
        "explanation": "bounded model checking (Kani/CBMC) of the real decoders over all byte strings of each listed length; panic, index, overflow, unwrap and unwinding assertions are the property",
    }


TABLE = {"C09": c09}


def get(pid, tier, seed):
    f = TABLE.get(pid)
    if f is None:
        return None
    spec = f(tier, seed)
    if tier == "quick":
        spec["obligations"] = [o for o in spec["obligations"] if o.get("tier", "q") == "q"]
    for o in spec["obligations"]:
        o["stubs"] = [STUB_DOC.get(s, s) for s in o.get("stubs", [])]
    return spec


def match_known(known, pid, o, case):
    """A reproduced violation is a *known finding* only if a listed entry's role
    matches this obligation and case kind."""
    for k in known.get("known", []):
        if k.get("property") != pid:
            continue
        if k.get("obligation") and k["obligation"] != o["name"] and not o["name"].startswith(k["obligation"]):
            continue
        if k.get("case_kind") and k["case_kind"] != case.get("kind"):
            continue
        return k
    return None
