"""Obligation tables: what the solver is asked, per property and tier.

Each obligation: name, engine, harness, cap (seconds; (quick, thorough) or one value),
must_cover (reachability witnesses that must be SATISFIED; None = all covers of the
harness), claim / bounds / functions / stubs (copied into the evidence) and `to_case`
(maps a solver counterexample to a native replay case).
"""

STUB_DOC = {
    "barrier_noop": "zeroize::optimization_barrier (inline asm) -> no-op",
    "fp_from_repr_spec": "<Fp as PrimeField>::from_repr -> its C07-proved specification (accept iff little-endian integer < p; limbs abstracted)",
    "fp_to_repr_spec": "<Fp as PrimeField>::to_repr -> inverse of fp_from_repr_spec (C07)",
}


def flat_bytes(info, n=None):
    """Concatenate the concrete kani::any() values of the first failing-check test."""
    pbs = info.get("playback") or []
    # prefer a test generated for a failed check, not for a cover
    pbs = [t for t in pbs if "cover" not in t["for"]] or pbs
    if not pbs:
        return None
    b = b"".join(pbs[0]["vals"])
    return b if n is None else b[:n]


def case_decode(fn, n):
    def f(o, info):
        b = flat_bytes(info, n)
        if b is None or len(b) < n:
            return []
        return [{"kind": "panic_decode", "fn": fn, "bytes": b.hex()}]
    return f


PANIC = ("--no-assertion-reach-checks",)
FUNC = ("--no-memory-safety-checks", "--no-overflow-checks", "--no-assertion-reach-checks")
# per-loop unwind bounds, matched against the *current* goto binary's loop list
# (function-name substring -> bound); the harness attribute gives the small default
RULES = [("strobe_rs::", 66), ("byteorder::", 26), ("keccak::f1600", 73), ("=memcmp.0", 70),
         ("index_range::IndexRange", 66), ("array::iter", 66), ("zip::", 26), ("ct_eq", 26), ("subtle::", 70), ("zeroize::Zeroize>::zeroize", 66),
         ("pow_inv", 6), ("RetryRng", 4), ("random_polynomial", 260), ("Evaluator::gen", 5),
         ("c04::", 140), ("c06::", 30), ("c08::", 140), ("c09::", 140), ("c16::", 140), ("c16b::", 140), ("c05::", 140),
         ("c02::", 140), ("c03::", 140), ("c01::", 140), ("c17::", 140), ("stubs::", 140), ("verif_kani::", 140)]


RULES_LONG = [("strobe_rs::", 172)] + RULES
# fault harnesses: any loop of the adss crate itself may run over a whole fixed-size field (MAC_LENGTH = 64)
RULES_ADSS = [("adss::", 66)] + RULES


def K(name, harness=None, cap=600, tier="q", mode="func", **kw):
    d = {"name": name, "engine": "kani", "harness": harness or name, "cap": cap, "tier": tier,
         "extra": FUNC if mode == "func" else PANIC, "unwindset": RULES, "mem": 12}
    d.update(kw)
    return d


def borrow(spec_fn, seed, names, why, tier="q"):
    """Obligations introduced under another property, registered here too because this
    property rests on the same code (same harness, same bounds, same replay mapping)."""
    out = []
    for o in spec_fn("thorough", seed)["obligations"]:
        if o["name"] in names:
            d = dict(o)
            d["tier"] = tier
            d["claim"] = why + " — " + d.get("claim", "")
            out.append(d)
    assert len(out) == len(names), (names, [o["name"] for o in out])
    return out


def c09(tier, seed):
    obs = []
    dec_stubs = ["barrier_noop", "fp_from_repr_spec"]
    obs.append(K("c09::c09_load_helpers", cap=300, mode="panic", claim="adss::load_u32 / load_bytes / AccessStructure::from_bytes never panic; load_bytes result lies inside the buffer",
                 bounds="every buffer length 0..=12 (symbolic length), every byte content, header = any u32",
                 functions=["adss::load_u32", "adss::load_bytes", "adss::AccessStructure::from_bytes"],
                 stubs=["barrier_noop"],
                 # symbolic length n comes after the 12 buffer bytes
                 to_case=lambda o, info: (lambda b: [{"kind": "panic_decode", "fn": "adss::load_bytes", "bytes": b[:min(12, int.from_bytes(b[12:20], "little"))].hex()}] if b and len(b) >= 20 else [])(flat_bytes(info))))
    q_sharks = [0, 24, 48]
    for n in [0, 23, 24, 25, 47, 48, 72]:
        obs.append(K("c09::c09_sharks_try_from_%d" % n, cap=400, mode="panic", tier="q" if n in q_sharks else "t",
                     must_cover=["accepted"] if n >= 24 else [] + ["rejected"],
                     claim="star_sharks::Share::try_from never panics",
                     bounds="all 2^(8*%d) byte strings of length %d" % (n, n),
                     functions=["star_sharks::Share::try_from"], stubs=dec_stubs,
                     to_case=case_decode("star_sharks::Share::try_from", n)))
    q_share = [0, 3, 8, 104]
    for n in [0, 3, 4, 7, 8, 16, 79, 80, 103, 104, 108, 128]:
        obs.append(K("c09::c09_share_from_bytes_%d" % n, cap=(600, 1500), mode="panic", tier="q" if n in q_share else "t",
                     must_cover=(["accepted"] if n >= 104 else []) + ["rejected"],
                     claim="sta_rs::Share::from_bytes / adss::Share::from_bytes never panic (inner length headers symbolic: truncation, inconsistent and huge headers included)",
                     bounds="all byte strings of length %d" % n,
                     functions=["sta_rs::Share::from_bytes", "adss::Share::from_bytes", "adss::load_bytes", "star_sharks::Share::try_from"],
                     stubs=dec_stubs, to_case=case_decode("sta_rs::Share::from_bytes", n)))
    q_msg = [0, 4, 12, 116]
    for n in [0, 3, 4, 8, 11, 12, 115, 116, 120]:
        obs.append(K("c09::c09_message_from_bytes_%d" % n, cap=(600, 1500), mode="panic", tier="q" if n in q_msg else "t",
                     must_cover=(["accepted"] if n >= 116 else []) + ["rejected"],
                     claim="sta_rs::Message::from_bytes never panics",
                     bounds="all byte strings of length %d" % n,
                     functions=["sta_rs::Message::from_bytes", "sta_rs::Share::from_bytes", "adss::load_bytes"],
                     stubs=dec_stubs, to_case=case_decode("sta_rs::Message::from_bytes", n)))
    obs.append(K("c09::c09_recover_any_key_length", cap=900, mem=16, mode="panic", must_cover=["rejected"],
                 claim="adss::recover never panics on a foreign share (arbitrary threshold, point, C, D, tag; no values), whatever the Shamir layer hands back: an error or a key of 0, 8, 15, 16 or 24 bytes (a share without values yields an empty key)",
                 bounds="one share built through the cfg(kani) hook, 2-byte C and D; Keccak-f = arbitrary function",
                 stubs=["Sharks::recover -> Err or an arbitrary key of length 0/8/15/16/24", "f1600_any", "Drop impls -> no-op"], functions=["adss::recover", "adss::Commune::verify"],
                 to_case=lambda o, info: [{"kind": "c09_foreign", "seed": 1}]))
    obs.append(K("c06::c06_interpolate_t2", cap=300, must_cover=["reached"],
                 claim="share recovery's interpolation never panics (no unwrap of a failed inversion) for any two distinct points, the point 0 included, and any values",
                 bounds="t = 2, GF(13) (a panic here is the vanishing of a polynomial expression in the points)", stubs=SF, functions=["interpolate"]))
    obs.append(M("mir::recover-structure", "Sharks::recover: no MIR assert (index, overflow) reachable for symbolic points; only pairwise distinct points reach interpolate",
                 bounds="n <= 3/4 shares"))
    obs.append(M("native::c09-foreign-input", "concrete cross-check on the natively compiled crates (not a solver query): ~6600 structured malformed inputs - every truncation and byte/length-prefix mutation of valid encodings, byte arrays and base64 strings of every length 0..40/64, random buffers of 0..320 bytes - fed to ServerPublicKey/ProofDLEQ::load_from_bincode, the JSON and bincode decoders of Point / Evaluation / ServerKeyState, Server::eval, Client::verify (undecodable points, missing proof), star_wasm::group_shares, sta_rs::Message/Share::from_bytes and share_recover: no panic", bounds="concrete, seeded; this is the only coverage of the ppoprf and star_wasm entry points of C09"))
    return {
        "obligations": obs,
        "level": "model_checking",
        "bounds": "input lengths from the listed finite sets (<= 128 bytes), contents fully symbolic",
        "outside": "inputs longer than the listed lengths; allocation failure; panics inside Keccak/curve25519 internals replaced by stubs",
        "assumptions": ["stubs listed under coverage.stubs behave within their documented contract",
                        "Fp::from_repr/to_repr are panic-free and meet their specification (decided separately by C07)"],
        "trusted_base": ["Kani 0.68 / CBMC 6.11 / CaDiCaL", "rustc MIR of the pinned Kani toolchain"],
        "explanation": "bounded model checking (Kani/CBMC) of the real decoders over all byte strings of each listed length; panic, index, overflow, unwrap and unwinding assertions are the property",
    }


def M(name, claim, tier="q", **kw):
    d = {"name": name, "engine": "mirsmt", "harness": name, "cap": 600, "tier": tier, "claim": claim,
         "to_case": lambda o, info: info.get("playback_cases", [])}
    d.update(kw)
    return d


def c07(tier, seed):
    full = "all operands (full 3x64-bit width, a,b < p), no sampling"
    obs = [
        M("c07::translator-validation", "the MIR interpreter run on concrete vectors reproduces the natively compiled field code (encoding is faithful)", bounds="boundary lattice x itself + VERIF_SEED randoms"),
        M("c07::vectors-vs-bigint-model", "real add/sub/mul/neg/double/square/invert/sqrt/pow/from_repr/to_repr/eq/cmp/is_odd agree with Python big integers mod 2^128+12451 on the boundary lattice and seeded operands, dev and release builds", bounds="boundary lattice around 0,1,2^64,2^128,p-1,p,(p-1)/2 crossed with itself + seeded uniform operands (concrete cross-check, not the deciding step)"),
        M("c07::add_assign", "limbs(a+b) == (A+B) mod p and < p; no MIR overflow/index assert reachable", bounds=full, functions=["Fp::add_assign", "Fp::add_nocarry", "Fp::reduce", "Fp::is_valid", "Fp::cmp_native", "Fp::sub_noborrow"]),
        M("c07::sub_assign", "limbs(a-b) == (A-B) mod p and < p", bounds=full, functions=["Fp::sub_assign"]),
        M("c07::neg", "limbs(-a) == (p-A) mod p", bounds=full, functions=["Fp::neg"]),
        M("c07::double", "limbs(2a) == 2A mod p", bounds=full, functions=["Fp::double"]),
        M("c07::cmp_native", "limb comparison == integer comparison", bounds="all 192-bit limb triples (validity not assumed)", functions=["Fp::cmp_native"]),
        M("c07::is_valid", "is_valid(a) iff integer(a) < p", bounds="all 192-bit limb triples", functions=["Fp::is_valid"]),
        M("c07::mul_assign", "Montgomery product: out*2^192 == A*B (mod p), out < p, no carry lost, no MIR assert reachable", bounds=full + "; symbolic limb products are shared opaque terms with the product lemma", functions=["Fp::mul_assign", "Fp::mont_reduce", "ff::derive::mac/adc (modelled)"]),
        M("c07::square", "out*2^192 == A*A (mod p), out < p", bounds=full, functions=["Fp::square", "Fp::mont_reduce"]),
        M("c07::product-lemma", "sum a_i*b_j*2^(64(i+j)) == A*B and A*B <= (p-1)^2 for A,B < p (true nonlinear arithmetic)", bounds="all integers"),
        M("c07::to_repr", "to_repr(a) is the 24-byte little-endian encoding of t < p with t*2^192 == limbs (mod p): one canonical encoding per element", bounds=full, functions=["Fp::to_repr", "Fp::mont_reduce", "byteorder::write_u64_into (modelled)"]),
        M("c07::from_repr", "from_repr(b) is Some iff int_le(b) < p, and then the Montgomery form of that integer", bounds="all 2^192 byte strings", functions=["Fp::from_repr", "ff::derive::sbb (modelled)", "byteorder::read_u64_into (modelled)", "Fp::mul_assign (by its proved contract)"]),
        M("c07::from_u64", "Fp::from(v) is the Montgomery form of v", bounds="all u64", functions=["<Fp as From<u64>>::from"]),
        M("c07::algebra", "2^192 is invertible mod p (so the congruences above determine values uniquely)", bounds="all integers"),
        M("c07::constants", "MODULUS, R, R2, INV, NUM_BITS, CAPACITY, S, TWO_INV, MULTIPLICATIVE_GENERATOR, ROOT_OF_UNITY(_INV), DELTA, ZERO, ONE have their interface meaning (closed formulas over the constants parsed from the MIR)", bounds="ground"),
        M("c07::addition-chains", "invert raises to p-2 and sqrt to (p+1)/4: exponent tracked through the square/mul chain of the MIR, using the proved contracts of square and mul", bounds="ground", functions=["Fp::invert", "Fp::sqrt"]),
    ]
    # the decoding *call sites*: whatever `Fp::from_repr(..)` resolves to in Share::try_from (the derived
    # trait method today; an inherent method of the same name would shadow it) rejects every encoding of an
    # integer not below the modulus, at the x position and at a y position
    obs += borrow(c08, seed, ["c08::c08_sharks_accept_24", "c08::c08_sharks_accept_48"],
                  "encodings of integers not below the modulus are rejected where shares are decoded (Engine K: the compiled call site, so a same-named inherent from_repr that shadows the derived one is executed, not the derived one)")
    return {
        "obligations": obs,
        "level": "proof",
        "bounds": "no bound on operands: all canonical limb triples / all 24-byte strings; loop-free or concretely-bounded MIR (3-limb iterators)",
        "outside": "ff::Field::pow / pow_vartime (default methods of the external ff crate, body not in the repository's MIR; covered only by the concrete vector cross-check); Fp::random's distribution; that a^(p-2) is the inverse and a^((p+1)/4) a square root (Fermat / Euler: number theory, assumption); that (p-1)/2 is prime (used for 'generator')",
        "assumptions": ["ff::derive::{mac,adc,sbb}, u64::wrapping_mul and byteorder::{read,write}_u64_into are modelled from their 3-line definitions (external crates)",
                        "the rustc MIR dump (-Zunpretty=mir, overflow-checks=on) is the semantics of the compiled code",
                        "p = 2^128+12451 is prime and (p-1)/2 is prime (number theory, not decided by SMT)",
                        "Fermat's little theorem / Euler's criterion for the meaning of the invert and sqrt exponents"],
        "trusted_base": ["/verif/mirsmt (MIR parser + symbolic interpreter, validated against the native build on every run)", "/usr/bin/z3 4.8.12 and cvc5 1.0 (every query sent to both)", "rustc nightly MIR dump", "Kani 0.68 / CBMC 6.11 for the two decoding call-site obligations (c08::*)"],
        "explanation": "symbolic execution of the MIR of the derived field code into integer SMT (wrap-around explicit), obligations decided by z3 and cvc5 for all operands",
    }


SF = ["barrier_noop", "sf_*: field operations replaced by arithmetic in GF(13) (formula-level harnesses; 129-bit arithmetic is C07)",
      "fp_from_repr_spec", "is_valid stub: the acceptance test of Fp::random is assumed to pass (one pass of the rejection loop)"]


def family_cases(name, n=40):
    """native realisation = the first n scenarios of a native family (harnesses whose model values
    live in an abstraction and cannot be mapped back byte by byte)"""
    def f(o, info):
        from vlib import mir_engine as ME
        return ME.NATIVE_FAMILIES[name](1, "thorough")[:n]
    return f


def dealer_cases(o, info):
    """native realisation for the GF(13) dealing / evaluation harnesses"""
    cs = [{"kind": "dealer_model", "t": t, "elements": k, "tail": tail} for t in (1, 2, 3, 4) for k, tail in ((1, 0), (2, 0), (1, 23), (0, 23))]
    cs += [{"kind": "dealer_draws", "t": t, "elements": 1} for t in (2, 3, 256, 257)]
    return cs


def interp_cases(o, info):
    """native realisation for the interpolation harnesses: textbook Lagrange on fixed points"""
    from vlib import mir_engine as ME
    hx = lambda v: "hex:" + v.to_bytes(24, "little").hex()
    out = []
    for t, xs in ((2, (0, 3)), (2, (5, 2)), (2, (ME.P - 1, 1)), (3, (1, 2, 3)), (3, (0, 7, 2**128)), (3, (9, 4, 11))):
        sh = [{"x": hx(x), "y": [1000 + 17 * i, 5 + i]} for i, x in enumerate(xs)]
        out.append({"kind": "recover_case", "t": t, "shares": sh, "expect": ME.recover_reference(t, sh)})
    return out


def c06(tier, seed):
    obs = []
    for h, q, claim in [
        ("c06_dealer_k1_t1", "q", "t=1: no draw, share value = secret"),
        ("c06_dealer_k1_t2", "q", "t=2: one draw d, value at x is d*x+s"),
        ("c06_dealer_k1_t3", "q", "t=3: draws d0,d1 in order, value (d0*x+d1)*x+s"),
        ("c06_dealer_k1_tail23_t2", "q", "23 trailing secret bytes are ignored"),
        ("c06_dealer_k2_t2", "q", "two secret elements: two independent polynomials, draws in order"),
        ("c06_dealer_k0_tail23", "q", "a secret shorter than one element: no polynomial, no randomness used"),
    ]:
        obs.append(K("c06::" + h, tier=q, cap=300, to_case=dealer_cases, must_cover=["reached"],
                     claim="dealing: polynomials of exactly t coefficients, constant term = secret element, every other coefficient a separate draw (3 words each) of the supplied source; sequential iterator yields x = 1,2,3 on them (Horner reference). " + claim,
                     bounds="k <= 2 secret elements, t <= 3, every secret value / draw in GF(13)", stubs=SF,
                     functions=["Sharks::dealer_rng", "random_polynomial", "get_evaluator", "Evaluator::next", "Evaluator::evaluate"]))
    obs.append(K("c06::c06_dealer_range_t1", cap=300, to_case=dealer_cases, must_cover=["accepted", "refused"],
                 claim="a secret containing an element not below the modulus is refused, never altered; in-range secrets are accepted",
                 bounds="all 48-byte secrets", stubs=["barrier_noop", "fp_from_repr_spec"], functions=["Sharks::dealer_rng"]))
    obs.append(K("c06::c06_gen_nonzero", cap=600, must_cover=["resampled twice", "resampled once", "accepted at once"],
                 # the harness' random source is a stub: natively the same thing is a scripted source
                 # that yields one, two and three zero candidates before a non-zero one
                 to_case=lambda o, info: [{"kind": "gen_script", "t": 2, "words": [0] * (3 * k) + [5, 0, 0]} for k in (1, 2, 3)] +
                 [{"kind": "gen_script", "t": 2, "words": [str(x) for x in w] + ["7", "0", "0"]} for w in ([12450, 0, 1], [12449, 0, 1], [1, 0, 0], [0, 12451, 0], [12451, 18446744073709539165, 0])],
                 claim="Evaluator::gen: the share point is the accepted draw of the supplied source, never 0, and the value is the polynomial at that point",
                 bounds="at most two resamples (third candidate assumed non-zero)", stubs=SF, functions=["Evaluator::gen", "Evaluator::evaluate"]))
    obs.append(K("c06::c06_interpolate_t2", cap=300, to_case=interp_cases, must_cover=["reached"],
                 claim="interpolate == textbook Lagrange value at 0 (reference model in the harness) for all distinct points and all values",
                 bounds="t = 2, GF(13)", stubs=SF, functions=["interpolate"]))
    obs.append(K("c06::c06_interpolate_t1", cap=300, to_case=interp_cases, must_cover=["reached"],
                 claim="interpolate of a single share is its own value (threshold 1)", bounds="t = 1, GF(13)", stubs=SF, functions=["interpolate"]))
    obs.append(K("c06::c06_interpolate_t3", cap=600, tier="q", to_case=interp_cases, must_cover=["reached"],
                 claim="interpolate == textbook Lagrange value at 0 for all distinct points and all values",
                 bounds="t = 3, GF(13)", stubs=SF, functions=["interpolate"]))
    for h in ("c06_dealer_t256", "c06_dealer_t257"):
        obs.append(K("c06::" + h, tier="t", cap=1800, to_case=dealer_cases, must_cover=["reached"],
                     claim="exactly t-1 coefficient draws also where a narrowed counter would wrap", bounds="t = 256 / 257", stubs=SF,
                     functions=["random_polynomial", "Sharks::dealer_rng"]))
    obs.append(M("mir::recover-structure",
                 "Sharks::recover (symbolic execution of its MIR, std containers modelled): unequal lengths refused; refused iff fewer than t distinct points; otherwise interpolate is applied to exactly the first t shares with pairwise distinct points in input order (so order, duplicates and surplus do not matter); no index-out-of-bounds reachable",
                 bounds="n <= 3 (quick) / 4 (thorough) shares, every length pattern with one deviating share, thresholds {0..n+1, 2^32-1}, points = arbitrary 192-bit limb triples",
                 functions=["Sharks::recover"]))
    obs.append(M("mir::recover-vectors",
                 "native Sharks::recover + interpolate agree with a Python big-integer model of textbook Shamir on every point pattern over {0,1,2,3}^n, n <= 4, thresholds 0..4 (concrete cross-check; also the source of replayable counterexamples)",
                 bounds="concrete enumeration, values seeded"))
    obs.append(M("mir::dealer-threshold",
                 "Sharks::dealer_rng -> random_polynomial from the MIR with a *symbolic u32 threshold T*: a path that leaves the coefficient loop after j draws has j == max(T,1)-1 for every T (the threshold reaches the loop bound at its full width: degree exactly T-1); one polynomial per secret element; the constant term is the secret element, every other coefficient a separate draw in draw order",
                 bounds="secrets of 1 and 2 elements; the first 4 (quick) / 8 (thorough) loop iterations are explored, the continuing path is cut and shown to need T > iterations; from_repr opaque (accepting), Fp::random = n-th opaque draw",
                 functions=["Sharks::dealer_rng", "random_polynomial"]))
    obs.append(M("native::c06-dealer-gen", "concrete cross-check on the natively compiled crates (not a solver query; produces replayable counterexamples when a change rewrites code into a shape the symbolic engines refuse): Evaluator::gen under scripted random sources that yield up to five zero candidates in a row never hands out the point 0; dealing with thresholds 1,2,3,255..257,65535..65537 draws at least 3(t-1) source words per element and two shares of a t >= 2 sharing differ in value", bounds="concrete"))
    return {
        "obligations": obs,
        "level": "model_checking",
        "bounds": "t <= 3, k <= 2 for dealing; n <= 4 shares for recovery; field values in GF(13) for formula-level harnesses",
        "outside": "thresholds > 3 for dealing (property says 1..600), secrets of more than 2 elements, 129-bit end-to-end equivalence (obtained per operation by C07 and per formula here), Fp::random's distribution and its unbounded retry loop",
        "assumptions": ["field operations replaced by GF(13) arithmetic in formula-level harnesses; soundness of transferring the formula to the 129-bit field rests on C07 (each operation is the field operation) and on the formulas being low-degree rational functions",
                        "std BTreeSet/Vec/Option semantics modelled by hand in the MIR interpreter (BTreeSet is beyond CBMC's reach here)"],
        "trusted_base": ["Kani 0.68 / CBMC 6.11", "/verif/mirsmt interpreter + z3/cvc5", "reference models written in the harness crate / checker"],
        "explanation": "Kani harnesses compare the real dealing/evaluation/interpolation code with reference formulas over all inputs of a small field; Sharks::recover's selection logic is decided from its MIR for symbolic points",
    }


def c08_case(fn, n):
    from vlib import refparse
    def f(o, info):
        b = flat_bytes(info, n)
        if b is None or len(b) < n:
            return []
        ref = {"sharks": refparse.sharks, "share": refparse.share, "message": refparse.message}[fn](b)
        c = {"kind": "c08_decode", "fn": fn, "bytes": b.hex(), "expect_accept": ref is not None}
        if ref is not None:
            c["expect_canon"] = ref.hex()
        return [c]
    return f


def c08(tier, seed):
    obs = []
    dec = ["barrier_noop", "fp_from_repr_spec", "fp_to_repr_spec", "Drop impls of sta_rs::Share / adss::AccessStructure (zeroisation only) -> no-op"]
    for n, q in [(23, "q"), (24, "q"), (47, "t"), (48, "q"), (50, "q"), (72, "q")]:
        obs.append(K("c08::c08_sharks_accept_%d" % n, tier=q, cap=300, must_cover=(["accepted"] if n >= 24 else []) + ["rejected"],
                     claim="star_sharks::Share::try_from accepts exactly the byte strings the independent layout parser accepts (>= 24 bytes, every whole 24-byte element canonical); number of elements agrees",
                     bounds="all byte strings of length %d" % n, stubs=dec, functions=["star_sharks::Share::try_from"], to_case=c08_case("sharks", n)))
    for n, q in [(24, "q"), (47, "t"), (48, "q"), (50, "q"), (72, "t")]:
        obs.append(K("c08::c08_sharks_canon_%d" % n, tier=q, cap=300, must_cover=["accepted"],
                     claim="re-encoding of any accepted Shamir share is the canonical form of the input: whole 24-byte little-endian elements unchanged, ignored tail dropped",
                     bounds="all byte strings of length %d" % n, stubs=dec, functions=["star_sharks::Share::try_from", "From<&Share> for Vec<u8>"], to_case=c08_case("sharks", n)))
    for n, q in [(8, "q"), (103, "t"), (104, "q"), (106, "t"), (128, "q"), (130, "t")]:
        obs.append(K("c08::c08_share_accept_%d" % n, tier=q, cap=600, must_cover=(["accepted"] if n >= 104 else []) + ["rejected"],
                     claim="sta_rs/adss Share::from_bytes accepts exactly what the independent parser of the documented layout accepts (truncation, inconsistent/huge length prefixes, non-canonical elements all inside the query)",
                     bounds="all byte strings of length %d, length prefixes symbolic" % n, stubs=dec,
                     functions=["adss::Share::from_bytes", "adss::load_bytes", "star_sharks::Share::try_from"], to_case=c08_case("share", n)))
    for n, q in [(12, "q"), (115, "t"), (116, "q"), (120, "t"), (144, "t")]:
        obs.append(K("c08::c08_message_accept_%d" % n, tier=q, cap=900, mem=16, must_cover=(["accepted"] if n >= 116 else []) + ["rejected"],
                     claim="sta_rs::Message::from_bytes accepts exactly what the independent parser accepts (ciphertext/share/tag chunks, trailing bytes ignored)",
                     bounds="all byte strings of length %d" % n, stubs=dec, functions=["sta_rs::Message::from_bytes"], to_case=c08_case("message", n)))
    obs.append(K("c08::c08_load_bytes_ref_big", cap=300, must_cover=["chunk longer than 64 KiB", "chunk of 256 bytes"],
                 claim="adss::load_bytes / load_u32 agree with the reference chunk parser (4-byte little-endian length, data right after it)",
                 bounds="every buffer length 0..=70000 and every header value (so every byte of the length prefix matters)", functions=["adss::load_bytes", "adss::load_u32"],
                 to_case=lambda o, info: (lambda b: [{"kind": "c08_store", "data": "", "buffer": b[:int.from_bytes(b[70000:70008], "little")].hex()}] if b and len(b) >= 70008 else [])(flat_bytes(info))))
    for n in (0, 255, 256, 300):
        obs.append(K("c08::c08_store_bytes_%d" % n, tier="q" if n in (0, 256) else "t", cap=300, extra=FUNC,
                     unwindset=[("c08::", 305)] + RULES,
                     claim="store_bytes writes a 4-byte little-endian length then the data; load_bytes inverts it",
                     bounds="all chunks of %d bytes" % n, functions=["adss::store_bytes", "adss::store_u32", "adss::load_bytes"],
                     to_case=(lambda n: (lambda o, info: [{"kind": "c08_store", "data": (flat_bytes(info, n) or b"").hex()}] if flat_bytes(info, n) is not None and len(flat_bytes(info, n)) == n else []))(n)))
    adss_st = dec + ["f1600_ro: Keccak-f as collision-free random oracle", "OsRng -> arbitrary words", "is_valid stub (one pass of Fp::random)", "field mul/invert by the C07 field laws"]
    for h, q in [("c08_honest_roundtrip_1_1", "q"), ("c08_honest_roundtrip_4_0", "t")]:
        obs.append(K("c16::" + h, tier=q, cap=900, mem=30, to_case=family_cases("native::c16-scenarios", 60), must_cover=["reached"],
                     claim="an honestly generated ADSS share encodes as A(4 LE)|len|x(24)|y(24)|len|C|len|D|J(64) and decode(encode(v)) == v",
                     bounds="message/coins lengths per harness name, threshold 1 or 2, all contents", stubs=adss_st,
                     functions=["adss::Commune::share", "adss::Share::to_bytes", "adss::Share::from_bytes"]))
    obs.append(M("native::c08-decoders", NAT + "synthetic encodings of the documented layout - every boundary field element (0, 1, p-1, p, p+1, 2^128, 2^192-1 ...) at every element position, every truncation, trailing bytes after the tag, a tag one byte short, an ignored tail inside the Shamir chunk, spliced shares, every length prefix set to 0/1/2^32-1/2^32-4/total length - decoded by the real decoders: accept/reject and the re-encoding agree with the independent reference parser", bounds="concrete, ~400 encodings"))
    return {
        "obligations": obs,
        "level": "model_checking",
        "bounds": "byte strings of the listed lengths (<= 144 bytes; chunk helpers up to 70000 bytes)",
        "outside": "canonical re-encoding of *arbitrary accepted* adss/sta_rs encodings (decode->encode of heap data exceeded 30 GB in CBMC; covered instead by: accept/reject agreement, the Shamir-level canonical form, and round trip of honestly generated shares); payloads > 144 bytes; ppoprf encodings (C15)",
        "assumptions": ["Fp::from_repr / to_repr replaced by their C07-proved specification (canonical little-endian bijection)"],
        "trusted_base": ["Kani 0.68 / CBMC 6.11", "the 60-line reference parser in /verif/kani/src/c08.rs"],
        "explanation": "differential harnesses: real decoders vs an independent parser of the documented layout over all byte strings of each length",
    }


def lay(info, layout):
    """split the concrete kani::any() bytes of the failing trace by a harness' input layout
    [(name, nbytes)]: the inputs are drawn first, in this order, before any stub value"""
    b = flat_bytes(info)
    if b is None:
        return None
    out, o = {}, 0
    for name, n in layout:
        if o + n > len(b):
            return None
        out[name] = b[o:o + n]
        o += n
    return out


STROBE = ["f1600_ro: Keccak-f[1600] as a collision-free random oracle (memo table over all calls; fresh outputs differ from all earlier ones in their first 16 bytes)",
          "byteorder 200-byte<->25-lane conversions written loop-free", "barrier_noop", "Strobe / MessageGenerator / SingleMeasurement / Commune / AccessStructure / sta_rs::Share Drop impls (zeroisation only) -> no-op"]
ADSS = STROBE + ["OsRng::next_u64 -> arbitrary words, counted (first word of a candidate non-zero: no resample)",
                 "Fp::is_valid stub: exact predicate, except that the acceptance test of Fp::random is assumed to pass (one pass of the rejection loop)",
                 "fp_from_repr_spec / fp_to_repr_spec (C07)", "Fp mul / invert by the C07-proved field laws (0, 1 exact; other products arbitrary non-zero)"]


def c04(tier, seed):
    obs = []
    quick_shapes = {(1, 1, 1, 1), (2, 1, 1, 2), (0, 0, 0, 0), (0, 1, 1, 0), (1, 0, 0, 1), (2, 0, 1, 1)}
    for a in range(3):
        for b in range(3):
            for c in range(3):
                for d in range(3):
                    sh = (a, b, c, d)
                    def tc(o, info, sh=sh):
                        v = lay(info, [("m1", sh[0]), ("e1", sh[1]), ("t1", 4), ("m2", sh[2]), ("e2", sh[3]), ("t2", 4), ("init1", 32), ("init2", 32)])
                        if not v:
                            return []
                        return [{"kind": "c04_triples", "m1": v["m1"].hex(), "e1": v["e1"].hex(), "t1": int.from_bytes(v["t1"], "little"),
                                 "m2": v["m2"].hex(), "e2": v["e2"].hex(), "t2": int.from_bytes(v["t2"], "little"),
                                 "init1": v["init1"].hex(), "init2": v["init2"].hex()},
                                # a collision between *different* triples exists only in the oracle model; the
                                # native realisation of a buffer-dependent digest is one triple, two buffers
                                {"kind": "c04_triples", "m1": v["m1"].hex(), "e1": v["e1"].hex(), "t1": int.from_bytes(v["t1"], "little"),
                                 "m2": v["m1"].hex(), "e2": v["e1"].hex(), "t2": int.from_bytes(v["t1"], "little"),
                                 "init1": v["init1"].hex(), "init2": bytes(b ^ 0xff for b in v["init1"]).hex()}]
                    obs.append(K("c04::c04_inject_%d_%d_%d_%d" % sh, tier="q" if sh in quick_shapes else "t", cap=400, must_cover=[],
                                 claim="sample_local_randomness: the 32-byte randomness of two (measurement, epoch, threshold) triples is equal iff the triples are equal (boundary-shifted pairs, empty components, thresholds differing in any bit included)",
                                 bounds="|m1|=%d |e1|=%d |m2|=%d |e2|=%d, all contents, all u32 thresholds, arbitrary prior content of the two output buffers" % sh, stubs=STROBE,
                                 functions=["MessageGenerator::sample_local_randomness", "strobe_digest", "StrobeRng", "strobe_rs::Strobe"], to_case=tc))
    for sh in ((1, 1, 1, 1), (2, 1, 1, 2), (0, 0, 0, 0)):
        obs.append(K("c04::c04_inject_%d_%d_%d_%d_w" % sh, tier="t", cap=900, must_cover=(["equal triples reachable"] if sh[0] == sh[2] else []) + ["different triples reachable"],
                     claim="vacuity witness of the inject harness (both outcome classes reachable)", bounds="same shape", stubs=STROBE))
    for e1, e2 in ((1, 1), (0, 1), (2, 1)):
        def tc(o, info, e1=e1, e2=e2):
            v = lay(info, [("r1", 32), ("r2", 32), ("e1", 2), ("e2", 2)])
            return [{"kind": "c04_ske", "r1": v["r1"].hex(), "r2": v["r2"].hex(), "e1": v["e1"][:e1].hex(), "e2": v["e2"][:e2].hex()}] if v else []
        obs.append(K("c03::c04_ske_sep_%d_%d" % (e1, e2), cap=400, must_cover=(["equal"] if e1 == e2 else []) + ["different"],
                     claim="derive_ske_key(r, epoch): keys equal iff (r, epoch) equal — a different epoch never yields the clients' key",
                     bounds="|epoch| = %d / %d, all contents" % (e1, e2), stubs=STROBE, functions=["derive_ske_key", "strobe_digest"], to_case=tc))
    def tcd(o, info):
        v = lay(info, [("k1", 32), ("k2", 32), ("a1", 1), ("a2", 1)])
        return [{"kind": "c04_digest", "k1": v["k1"].hex(), "k2": v["k2"].hex(), "a1": v["a1"][0], "a2": v["a2"][0]}] if v else []
    obs.append(K("c03::c04_digest_sep", cap=400, must_cover=["equal", "different"],
                 claim="the labelled PRF of derive_random_values (strobe_digest(rnd, [i])) gives equal outputs iff (rnd, i) equal: key seed, coins and tag are separated",
                 bounds="32-byte keys, 1-byte label, all contents", stubs=STROBE, functions=["strobe_digest"], to_case=tcd))
    for h, q in (("c16_structure_m1_r1_t1", "q"), ("c16_structure_m4_r4_t2", "q")):
        obs.append(K("c16b::" + h, tier=q, cap=600, must_cover=["reached"], to_case=structure_case(*STRUCT_SHAPES[h]),
                     claim="every share draws its own evaluation point from the OS RNG *after* everything else of the share was computed (so tag/key/C/D/J/polynomial do not depend on it); t-1 coefficients come from the transcript RNG",
                     bounds="see C16", stubs=ADSS, functions=["adss::Commune::share"]))
    obs.append(M("native::c04-triples", "concrete cross-check on the natively compiled crates (not a solver query; produces replayable counterexamples when a change rewrites code into a shape the symbolic engines refuse): pairs of (measurement, epoch, threshold) triples that differ in one component, by a byte moved across the measurement/epoch boundary, or only in bytes that are not valid UTF-8 (0x80, 0xff, 0xc0 0x80, U+FFFD itself), thresholds 1, 2, 257, 65537, 2^32-1: randomness, tag and key equal iff the triples are equal; independent shares of equal triples have different points; a non-zero output buffer does not influence the randomness", bounds="concrete, ~250 (quick) / ~490 pairs"))
    return {
        "obligations": obs, "level": "model_checking",
        "bounds": "measurement/epoch components of 0..2 bytes (all 81 shape combinations in thorough), any u32 threshold; 32-byte randomness",
        "outside": "components longer than 2 bytes (only more absorbed rate bytes); the glue `share_with_local_randomness` -> (tag = r2, key = ske(r0, epoch), share = ADSS(t, r0, r1)) is checked only through C01's end-to-end recovery harness and by reading; probability-2^-129 coincidence of two OS-drawn points",
        "assumptions": ["Keccak-f[1600] behaves as a collision-free random oracle (ideal permutation, no truncated collisions): the cryptographic assumption of every 'equal iff' claim"],
        "trusted_base": ["Kani 0.68 / CBMC 6.11", "strobe-rs 0.10 real code (only keccak::f1600 is replaced)"],
        "explanation": "two-run harnesses over the real Strobe framing with the permutation as a memoising random oracle: the solver decides 'outputs equal iff inputs equal' for all contents of each shape",
    }


def adss_case(o, info, layout, **kw):
    v = lay(info, layout)
    if not v:
        return []
    c = {"kind": "adss_scenario"}
    c.update(kw)
    for k, b in v.items():
        c[k] = b.hex()
    return [c]


STRUCT_SHAPES = {"c16_structure_m1_r1_t1": (1, 1, 1), "c16_structure_m4_r4_t2": (4, 4, 2)}


def structure_case(ml, rl, t):
    """replay cases for a failing share-structure harness"""
    def tc(o, info):
        v = lay(info, [("m", 8), ("r", 8)])
        if not v:
            return []
        cs = [{"kind": "adss_scenario", "m": v["m"][:ml].hex(), "r": v["r"][:rl].hex(), "t": t, "n_shares": t, "expect_ok": True}]
        # the same contents with one message / coin byte flipped: coefficients must differ
        m2 = bytes([v["m"][0] ^ 1]) + v["m"][1:ml] if ml else b""
        r2 = v["r"][:rl] if ml else (bytes([v["r"][0] ^ 1]) + v["r"][1:rl] if rl else b"")
        cs.append({"kind": "adss_coeffs", "m": v["m"][:ml].hex(), "r": v["r"][:rl].hex(), "m2": m2.hex(), "r2": r2.hex()})
        # a change in the number / order of cipher operations shows natively only when message and
        # coins have different lengths (one of them empty)
        cs.append({"kind": "adss_scenario", "m": "", "r": v["r"][:4].hex(), "t": max(t, 1), "n_shares": max(t, 1), "expect_ok": True})
        cs.append({"kind": "adss_scenario", "m": v["m"][:4].hex(), "r": "", "t": max(t, 1), "n_shares": max(t, 1), "expect_ok": True})
        return cs
    return tc


def c16(tier, seed):
    obs = []
    for h, (ml, rl, t), q in (("c16_structure_m1_r1_t1", (1, 1, 1), "q"), ("c16_structure_m4_r4_t2", (4, 4, 2), "q"),
                              ("c16_structure_m0_r0_t1", (0, 0, 1), "q"), ("c16_structure_m4_r0_t3", (4, 0, 3), "t")):
        tc = structure_case(ml, rl, t)
        obs.append(K("c16b::" + h, tier=q, cap=600, must_cover=["reached"],
                     claim="share(): everything except the point and the values at it is computed before the single OS draw, hence a deterministic function of (threshold, message, coins); exactly t-1 coefficient draws from the transcript-seeded RNG; J = MAC output over (A, M, R), C = M xor keystream(K), D = R xor keystream(K, C); every permutation call is chained (capacity lanes) to its Strobe object: J, K and then every coefficient draw continue the one transcript that absorbed A, M, R; for t = 1 the value is K||0",
                     bounds="|M|=%d |R|=%d t=%d, all contents" % (ml, rl, t), stubs=ADSS, functions=["adss::Commune::share", "adss::Share::to_bytes", "StrobeRng", "Sharks::dealer_rng", "Evaluator::gen"], to_case=tc))
    for h, (ml, rl), q in (("c16_recover_t1_m1_r1", (1, 1), "t"), ("c16_recover_t1_m4_r0", (4, 0), "t"), ("c16_recover_t1_m0_r4", (0, 4), "q")):
        def tc(o, info, ml=ml, rl=rl):
            v = lay(info, [("m", 8), ("r", 8)])
            return [{"kind": "adss_scenario", "m": v["m"][:ml].hex(), "r": v["r"][:rl].hex(), "t": 1, "n_shares": 1, "expect_ok": True}] if v else []
        obs.append(K("c16b::" + h, tier=q, cap=2400, mem=30, must_cover=["reached"],
                     claim="threshold 1: share -> recover returns exactly the message (decrypt with the key the Shamir layer hands back, MAC re-verified)",
                     bounds="|M|=%d |R|=%d" % (ml, rl), stubs=ADSS + ["Sharks::recover -> the honest key K||0 read from the permutation log (a t = 1 share carries K||0: c16_structure_*_t1; the Shamir layer returns the selected share's value at t = 1: mir::recover-structure + c06_interpolate_t1)"],
                     functions=["adss::recover", "adss::Commune::verify"], to_case=tc))
    obs.append(K("c16b::c16_custom_transcript_rejected", tier="q", cap=2400, mem=30, must_cover=["reached"],
                 claim="a share created under a different authenticated transcript is rejected by recover",
                 bounds="|M|=|R|=2, t=1", stubs=ADSS + ["Sharks::recover -> the honest key of the sharing (the strongest case for acceptance)"], functions=["adss::recover"],
                 to_case=lambda o, info: adss_case(o, info, [("m", 2), ("r", 2)], t=1, n_shares=1, custom_transcript=True)))
    obs.append(K("c16b::c16_threshold_zero", tier="q", cap=900, must_cover=["reached"],
                 claim="threshold 0 never recovers (refused before any decryption)", bounds="|M|=|R|=2", stubs=ADSS, functions=["adss::recover", "interpolate"],
                 to_case=lambda o, info: adss_case(o, info, [("m", 2)], t=0, n_shares=1)))
    obs.append(K("c06::c06_interpolate_t1", cap=300, must_cover=["reached"], to_case=interp_cases,
                 claim="the Shamir layer at threshold 1: interpolating the single selected share returns its own value (so the key handed back is the K||0 the share carries)", bounds="t = 1, GF(13)", stubs=SF, functions=["interpolate"]))
    obs.append(M("mir::recover-structure", "Sharks::recover selection logic (see C06): any t shares with distinct points are what interpolation receives, independent of order/duplicates/surplus",
                 bounds="n <= 3/4, symbolic points"))
    obs.append(M("native::c16-scenarios", "concrete cross-check on the natively compiled crates (not a solver query; produces replayable counterexamples when a change rewrites code into a shape the symbolic engines refuse): messages / coins of 0..300 bytes, t = 1..3 with exactly t and t+2 shares: wire round trip, recovery returns M; threshold 0 and foreign transcripts refused; three independent invocations of one t = 2 sharing are collinear, the slope is non-zero and differs when one message or coin byte differs", bounds="concrete"))
    return {
        "obligations": obs, "level": "model_checking",
        "bounds": "message / coins of 0..4 bytes, thresholds 0..3",
        "outside": "message/coin lengths > 4 (in particular the 166-byte rate boundary and 100 kB); thresholds > 3; t >= 2 recovery end-to-end at 129 bits (composition of: all shares lie on one polynomial [structure harness] + C06 interpolation + C07 field); custom transcripts other than one fresh Strobe",
        "assumptions": ["Keccak-f as collision-free random oracle", "C07 field laws for the stubs of mul/invert/from_repr/to_repr"],
        "trusted_base": ["Kani 0.68 / CBMC 6.11", "strobe-rs real code"],
        "explanation": "single-sharing harnesses over the real adss code; the permutation log makes 'deterministic up to the share point' and the masking/MAC structure decidable",
    }


def c05(tier, seed):
    obs = []
    fields = [("threshold", 0, "q"), ("c", 1, "t"), ("d", 2, "t"), ("j", 3, "q")]
    for name, which, q in fields:
        def tc(o, info, which=which):
            v = lay(info, [("m", 2), ("r", 2), ("nt", 4), ("nc", 2), ("nj", 64)])
            if not v:
                return []
            lo, hi, nb = {0: (0, 4, v["nt"]), 1: (60, 62, v["nc"]), 2: (66, 68, v["nc"]), 3: (68, 132, v["nj"])}[which]
            cs = [{"kind": "adss_scenario", "m": v["m"].hex(), "r": v["r"].hex(), "t": 1, "n_shares": 1, "fault_lo": lo, "fault_hi": hi,
                   "fault_bytes": nb.hex(), "must_reject": True}]
            if which == 0:
                # the native realisation of "the Shamir layer still returns the honest key under a
                # rewritten threshold": surplus shares and the recorded threshold raised to their number
                for t, n in ((1, 2), (2, 3), (1, 3)):
                    cs.append({"kind": "adss_scenario", "m": v["m"].hex(), "r": v["r"].hex(), "t": t, "n_shares": n, "fault_lo": 0, "fault_hi": 4,
                               "fault_bytes": n.to_bytes(4, "little").hex(), "must_reject": True})
            return cs
        obs.append(K("c16b::c05_fault_" + name, tier=q, cap=2400, mem=24, must_cover=["rejected"], unwindset=RULES_ADSS,
                     claim="the %s field of the ciphertext-supplying share replaced by arbitrary different content: recovery always returns an error" % name,
                     bounds="honest threshold-1 sharing of 2-byte message and coins; the whole field arbitrary (subsumes every bit/byte fault); threshold fault: the Shamir layer returns an arbitrary key; C/D/J faults: it returns the honest key (single-field fault; with a chosen key and a matching tag an attacker presents his own consistent sharing); altered x / y only change the key and are covered by c05_any_interpolated_key",
                     stubs=ADSS + ["Sharks::recover -> arbitrary key (threshold) / the honest key K||0 from the log (C, D, J)", "faulty share built through the cfg(kani) hook adss::Share::verif_from_parts"],
                     functions=["adss::recover", "adss::Commune::verify"], to_case=tc))
    obs.append(K("c16b::c05_any_interpolated_key", tier="q", cap=2400, mem=24, must_cover=["rejected", "accepted with the original message"], unwindset=RULES_ADSS,
                 claim="whatever key the Shamir layer hands back (any mixture of foreign, altered, repeated, surplus points): the result is an error or exactly the message of the first share's sharing",
                 bounds="honest threshold-2 sharing of 2-byte message/coins; interpolated key = arbitrary 24 bytes or error", stubs=ADSS + ["Sharks::recover -> arbitrary Ok(24 bytes) / Err"],
                 functions=["adss::recover", "adss::Commune::verify"],
                 to_case=lambda o, info: adss_case(o, info, [("m", 2), ("r", 2)], t=2, n_shares=2, expect_ok=True)))
    obs += borrow(c01, seed, ["c16b::c01_selection_reaches_shamir_3", "c16b::c01_selection_reaches_shamir_3_t2"], "'the sharing to which the first share belongs': adss::recover takes threshold (and C, D, J) from the first share of the collection as given by the caller, whatever the points, order and repeats of the collection")
    obs += borrow(c02, seed, ["mir::recover-structure"], "which points of a mixed / reordered / repeated collection reach interpolation: exactly the first t distinct ones in caller order (first occurrence of a repeated point), so the interpolated key is a function of those alone")
    obs.append(M("native::c05-faults", "concrete cross-check on the natively compiled crates (not a solver query; produces replayable counterexamples when a change rewrites code into a shape the symbolic engines refuse): every byte of the encoded ciphertext-supplying share flipped (t = 1 with 1 share, t = 2 with 2 and 3 shares) and the recorded threshold raised to the number of shares present: recovery rejects (for t = 1 the unauthenticated point bytes only require error-or-exactly-M)", bounds="concrete, 3-byte message, 2-byte coins"))
    return {
        "obligations": obs, "level": "model_checking",
        "bounds": "2-byte message and coins, thresholds 1-2, one altered field per query (whole field arbitrary)",
        "outside": "longer messages; simultaneous alteration of several fields (subsumed for the key path by the arbitrary-key harness); forgeries that need a permutation collision",
        "assumptions": ["Keccak-f as collision-free random oracle: an adversarially chosen J equals a fresh MAC output only by collision"],
        "trusted_base": ["Kani 0.68 / CBMC 6.11"],
        "explanation": "fault model: the solver chooses the replacement content of one field / the interpolated key; assertion: Err or the original message",
    }


def c02(tier, seed):
    obs = []
    obs.append(M("mir::recover-structure", "counting gate: Sharks::recover refuses iff fewer than t distinct points (duplicates do not count, any order), from its MIR with symbolic points",
                 bounds="n <= 3/4 shares, thresholds 0..n+1 and 2^32-1"))
    obs.append(M("mir::recover-vectors", "native cross-check of the gate on every point pattern over {0..3}^n", bounds="concrete"))
    obs.append(K("c16b::c02_gate_refusal_propagates", tier="q", cap=900, mem=20, must_cover=["reached"],
                 claim="adss::recover propagates a refusal of the Shamir layer (fewer than threshold distinct shares) before any decryption",
                 bounds="2-byte message", stubs=ADSS, functions=["adss::recover"],
                 to_case=lambda o, info: adss_case(o, info, [("m", 2)], t=2, n_shares=1)))
    for h in ("c16_structure_m1_r1_t1", "c16_structure_m4_r4_t2"):
        obs.append(K("c16b::" + h, tier="q", cap=600, must_cover=["reached"], to_case=structure_case(*STRUCT_SHAPES[h]),
                     claim="structural non-disclosure of one share: every byte of the encoded share is a public length/threshold, the OS-drawn point, a polynomial value, M xor keystream, R xor keystream' or the MAC output; K, M, R never appear as such (t >= 2); polynomial has exactly t-1 separately drawn coefficients",
                     bounds="see C16", stubs=ADSS, functions=["adss::Commune::share"]))
    obs.append(K("c16b::c05_fault_threshold", tier="t", cap=2400, mem=50, must_cover=["rejected"],
                 claim="a rewritten threshold (any other value) is always rejected: the threshold is bound by the MAC", bounds="see C05", stubs=ADSS))
    for h in ("c06_dealer_t256", "c06_dealer_t257"):
        obs.append(K("c06::" + h, tier="t", cap=1800, must_cover=["reached"],
                     claim="degree is exactly t-1 also for thresholds beyond one byte: t-1 coefficient draws", bounds="t = 256 / 257", stubs=SF))
    obs.append(M("mir::dealer-threshold",
                 "Sharks::dealer_rng -> random_polynomial from the MIR with a *symbolic u32 threshold T*: a path that leaves the coefficient loop after j draws has j == max(T,1)-1 for every T (the threshold reaches the loop bound at its full width: degree exactly T-1); one polynomial per secret element; the constant term is the secret element, every other coefficient a separate draw in draw order",
                 bounds="secrets of 1 and 2 elements; the first 4 (quick) / 8 (thorough) loop iterations are explored, the continuing path is cut and shown to need T > iterations; from_repr opaque (accepting), Fp::random = n-th opaque draw",
                 functions=["Sharks::dealer_rng", "random_polynomial"]))
    obs.append(M("native::c06-dealer-gen", "concrete cross-check on the natively compiled crates (not a solver query; produces replayable counterexamples when a change rewrites code into a shape the symbolic engines refuse): dealing with thresholds around 2^8 and 2^16 draws 3(t-1) source words per element (degree t-1 at full threshold width)", bounds="concrete"))
    obs.append(K("c04::c04_inject_1_1_1_1", tier="q", cap=400, must_cover=[],
                 claim="reports made under a different threshold (any other u32 value, also one that agrees in its low byte) or epoch belong to a different sharing: their randomness - hence r0, tag and key - differs, so they cannot be mixed in to reach a measurement's threshold",
                 bounds="see C04", stubs=STROBE, functions=["MessageGenerator::sample_local_randomness"]))
    obs.append(M("native::c04-triples", NAT + "thresholds 1, 2, 257, 65537, 2^32-1 and 258 vs 2 give different randomness, tag and key", bounds="concrete"))
    return {
        "obligations": obs, "level": "model_checking",
        "bounds": "n <= 4 shares, thresholds <= 4 (and 256/257 for the draw count), 2-byte messages",
        "outside": "the statistical clauses (coefficients non-zero, pairwise distinct, different between measurements; t-1 points reveal nothing) are probabilistic / information-theoretic and are not decided by a solver: each coefficient is shown to be a separate draw; the report-level scan of Message::to_bytes (tag, ciphertext) is covered by C03's masking harness and C04's separation harnesses",
        "assumptions": ["Keccak-f as collision-free random oracle"],
        "trusted_base": ["Kani / CBMC", "/verif/mirsmt"],
        "explanation": "structural decision of the counting gate (MIR), MAC binding of the threshold and the masking structure of a share",
    }


def c03(tier, seed):
    obs = []
    def tcm(n):
        def f(o, info):
            v = lay(info, [("key", 16), ("data", 12 if n <= 12 else 170)])
            return [{"kind": "c03_masking", "key": v["key"].hex(), "data": v["data"][:n].hex()}] if v else []
        return f
    obs.append(K("c03::c03_masking_12", cap=400, must_cover=["reached"],
                 claim="Ciphertext::new: every ciphertext byte is payload xor keystream(key) (never the payload itself), length = payload length, decrypt inverts it",
                 bounds="16-byte key, 12-byte payload, all contents", stubs=STROBE, functions=["Ciphertext::new", "Ciphertext::decrypt"], to_case=tcm(12)))
    obs.append(K("c03::c03_masking_1", tier="t", cap=400, must_cover=["reached"], claim="as above", bounds="1-byte payload", stubs=STROBE, to_case=tcm(1)))
    obs.append(K("c03::c03_masking_170", tier="q", cap=900, must_cover=["second block"],
                 claim="payload spanning two 166-byte rate blocks: every byte masked, also past the block boundary",
                 bounds="170-byte payload, arbitrary position", stubs=STROBE, functions=["Ciphertext::new"], to_case=tcm(170), unwindset=RULES_LONG))
    def tcr(o, info):
        v = lay(info, [("key", 16), ("d1", 6), ("d2", 6)])
        if not v:
            return []
        return [{"kind": "c03_reuse", "m": "6d", "e": "65", "t": 2, "aux1": v["d1"].hex(), "aux2": v["d2"].hex()}]
    obs.append(K("c03::c03_keystream_reuse", cap=400, must_cover=[],
                 claim="two payloads under the key of one measurement: the ciphertext difference must not equal the plaintext difference (fails: D7, known finding)",
                 bounds="6-byte payloads", stubs=STROBE, functions=["Ciphertext::new", "Message::generate (native replay)"], to_case=tcr,
                 known_role="keystream-reuse-first-block"))
    def tcr2(o, info):
        v = lay(info, [("key", 16), ("d1", 182), ("d2", 182)])
        if not v:
            return []
        a1 = v["d1"][9:]
        # the native realisation needs plaintexts that differ beyond the first block as well
        a2 = v["d2"][9:157] + bytes(b ^ 0x55 for b in a1[157:])
        return [{"kind": "c03_reuse", "m": "6d", "e": "65", "t": 2, "aux1": a1.hex(), "aux2": a2.hex(), "from_offset": 166}]
    obs.append(K("c03::c03_keystream_second_block", cap=900, mem=16, must_cover=["reached"], unwindset=[("strobe_rs::", 184)] + RULES, to_case=tcr2,
                 claim="two payloads under one key that differ in the first rate block: on positions 166..182 the ciphertext difference is not the plaintext difference (the second block's keystream depends on the first ciphertext block) - the reuse of D7 does not extend past the first block",
                 bounds="182-byte payloads, all contents", stubs=STROBE, functions=["Ciphertext::new"]))
    for e1, e2 in ((1, 1),):
        obs.append(K("c03::c04_ske_sep_%d_%d" % (e1, e2), cap=400, must_cover=["equal", "different"],
                     claim="the payload key is derive_ske_key(r0, epoch): a function of secret r0 (not carried in the report: r0 only appears as C = r0 xor keystream(K))", bounds="see C04", stubs=STROBE))
    obs.append(M("native::c03-lengths", "concrete cross-check on the natively compiled crates (not a solver query; produces replayable counterexamples when a change rewrites code into a shape the symbolic engines refuse): payloads of 1..1000 bytes around the 128/166/256-byte boundaries: decrypt inverts encrypt, no 12-byte window of the payload appears in the clear; two reports with 200/400-byte associated data differing everywhere: beyond the first rate block the ciphertext difference is not the plaintext difference (the first block is known finding D7 and is not re-reported by this obligation)", bounds="concrete"))
    return {
        "obligations": obs, "level": "model_checking",
        "bounds": "payloads of 1, 12 and 170 bytes",
        "outside": "report-level composition (Message::generate = digests + ADSS share + Ciphertext::new under derive_ske_key(r0, epoch)) is by reading plus C01/C04; 'cannot be decrypted with any value carried in the report' is the key-secrecy argument of C02/C16 (K and r0 never in clear), not a solver query",
        "assumptions": ["Keccak-f as collision-free random oracle"],
        "trusted_base": ["Kani / CBMC"],
        "explanation": "the permutation log identifies the keystream: masking is decided byte by byte; keystream reuse across reports is reported as the known finding D7",
    }


def c01(tier, seed):
    obs = []
    for h in ("c01_framing_3_2", "c01_framing_0_0", "c01_framing_3_none"):
        obs.append(K("c03::" + h, cap=300, must_cover=["reached"], to_case=family_cases("native::e2e-scenarios", 60),
                     claim="payload framing len|measurement [len|aux]: parses back to exactly the measurement and the associated data; absent and empty associated data are distinguishable",
                     bounds="measurement / aux up to 4 bytes", functions=["store_bytes", "load_bytes"]))
    def gen_case(ml, al, has_aux):
        def f(o, info):
            v = lay(info, [("m", 4), ("a", 4), ("e", 2), ("t", 4)])
            if v is None:
                return []
            return [{"kind": "star_e2e", "m": v["m"][:ml].hex(), "e": v["e"].hex(), "t": 1,
                     "aux": [v["a"][:al].hex() if has_aux else None], "selection": [0]}]
        return f
    def sel_case(o, info):
        v = lay(info, [("x0", 24), ("x1", 24), ("x2", 24), ("t", 4)])
        if v is None:
            return []
        xs, sel = [], []
        for k in ("x0", "x1", "x2"):
            if v[k] not in xs:
                xs.append(v[k])
            sel.append(xs.index(v[k]))
        return [{"kind": "star_e2e", "m": "6d6561", "e": "6531", "t": 2 if o["harness"].endswith("_t2") else int.from_bytes(v["t"], "little"),
                 "aux": [None] * len(xs), "selection": sel}] + \
               [{"kind": "adss_mixed", "ma": "0a0b", "ra": "01", "mb": "0c0d0e", "rb": "02", "t": t, "rounds": 8} for t in (1, 2)]
    obs.append(K("c16b::c01_selection_reaches_shamir_3_t2", cap=300, must_cover=["repeat first", "surplus", "too few"], to_case=sel_case,
                 claim="as below with the first share's threshold fixed to 2 (loops over the threshold stay concrete: this variant still decides code that iterates threshold-many times)",
                 bounds="3 shares, arbitrary points, t = 2", functions=["adss::recover"], stubs=["Sharks::recover -> recorder", "Drop impls -> no-op"]))
    obs.append(K("c16b::c01_selection_reaches_shamir_3", cap=300, mem=16, must_cover=["repeat first", "surplus", "too few"], to_case=sel_case,
                 claim="adss::recover consults the Shamir layer with the first share's threshold t and hands it at least min(t, #distinct) distinct points of the selection: repeated or surplus reports never crowd out a distinct share",
                 bounds="3 shares, arbitrary points (every equality pattern and order), t in 1..=3, other thresholds arbitrary",
                 functions=["adss::recover"], stubs=["Sharks::recover -> recorder (threshold, #points, #distinct points), then refuses", "Drop impls -> no-op"]))
    for h, sh in (("c01_generate_3_2", (3, 2, True)), ("c01_generate_3_empty", (3, 0, True)),
                  ("c01_generate_3_none", (3, 0, False)), ("c01_generate_0_none", (0, 0, False))):
        obs.append(K("c03::" + h, cap=300, must_cover=["reached"], to_case=gen_case(*sh),
                     claim="the real Message::generate encrypts, under the derived key, exactly len|measurement followed by len|aux iff associated data was supplied (empty data is not absence)",
                     bounds="measurement %d bytes, associated data %s; any threshold, epoch, randomness" % (sh[0], ("%d bytes" % sh[1]) if sh[2] else "absent"),
                     functions=["sta_rs::Message::generate", "store_bytes"],
                     stubs=["MessageGenerator::derive_random_values / derive_key -> arbitrary values (C04)", "MessageGenerator::share -> a fixed share (C16)",
                            "Ciphertext::new -> records key and plaintext (its masking is c03_masking)", "Drop impls -> no-op"]))
    def agree_case(en):
        def f(o, info):
            v = lay(info, [("m", 2), ("e", 2), ("t", 4)])
            if v is None:
                return []
            return [{"kind": "star_e2e", "m": v["m"].hex(), "e": v["e"][:en].hex(), "t": t, "aux": [None, "", "6175"][:n], "selection": list(range(n))}
                    for t, n in ((1, 1), (2, 3))]
        return f
    for en, q in ((2, "q"), (1, "t"), (0, "q")):
        obs.append(K("c03::c01_key_agreement_e%d" % en, cap=600, tier=q, must_cover=["reached"] + (["epoch that is not UTF-8 text"] if en else []), to_case=agree_case(en),
                     claim="client and aggregation side agree on the payload key: inside the real Message::generate the value handed to the sharing layer is r0 and the key handed to the cipher equals derive_ske_key(r0, epoch) as the server computes it, for every epoch byte string (binary epochs included), measurement and threshold",
                     bounds="epoch of %d arbitrary byte(s), 2-byte measurement, any threshold and client randomness" % en,
                     functions=["sta_rs::Message::generate", "sta_rs::MessageGenerator::new", "MessageGenerator::derive_key", "sta_rs::derive_ske_key", "strobe_digest"],
                     stubs=STROBE + ["MessageGenerator::derive_random_values -> arbitrary (r0, r1, r2), r0 recorded (C04)", "MessageGenerator::share -> records the secret it is given, returns a fixed share (C16)",
                                     "Ciphertext::new -> records key and plaintext (its masking is c03_masking)"]))
    obs.append(K("c03::c03_masking_12", cap=400, must_cover=["reached"], claim="Ciphertext::decrypt under the same key inverts Ciphertext::new", bounds="12-byte payload", stubs=STROBE))
    obs.append(K("c03::c04_ske_sep_1_1", cap=400, must_cover=["equal", "different"], claim="the server re-derives the clients' payload key from (recovered message, epoch): derive_ske_key is a function of exactly these", bounds="see C04", stubs=STROBE))
    obs.append(K("c16::c08_honest_roundtrip_1_1", cap=900, mem=30, must_cover=["reached"], claim="an honestly generated share survives encode -> decode unchanged", bounds="see C08", stubs=ADSS))
    obs.append(K("c16b::c16_structure_m4_r4_t2", cap=600, must_cover=["reached"], to_case=structure_case(4, 4, 2), claim="all clients of one (threshold, message, coins) sharing hold points of one polynomial (coefficients and C, D, J do not depend on the client's OS draw)", bounds="see C16", stubs=ADSS))
    obs.append(M("mir::recover-structure", "any selection containing t distinct shares reaches interpolation with exactly the first t distinct ones: order, repeated and surplus reports do not matter", bounds="n <= 3/4"))
    obs.append(K("c06::c06_interpolate_t2", cap=300, must_cover=["reached"], claim="interpolation of t distinct points is the Lagrange value at 0", bounds="t=2, GF(13)", stubs=SF))
    obs.append(K("c06::c06_interpolate_t3", cap=600, tier="t", must_cover=["reached"], claim="as above", bounds="t=3, GF(13)", stubs=SF))
    for h in ("c16_recover_t1_m1_r1",):
        obs.append(K("c16b::" + h, tier="t", cap=2400, mem=30, must_cover=["reached"], claim="threshold 1: share -> recover returns exactly the message", bounds="see C16", stubs=ADSS))
    obs += borrow(c08, seed, ["c08::c08_load_bytes_ref_big"], "the aggregator splits every decrypted payload and every report with load_bytes: length headers of all widths (beyond one byte, beyond 64 KiB) select exactly the little-endian length")
    obs += borrow(c08, seed, ["c08::c08_message_accept_120"], "every well-formed report is accepted by Message::from_bytes, in particular short ciphertexts (0..4 bytes: the empty measurement without associated data encrypts to exactly 4 bytes)")
    obs += borrow(c04, seed, ["c03::c04_ske_sep_0_1"], "key re-derivation works for the empty epoch as well (no panic, same function of (message, epoch))")
    obs.append(M("native::e2e-scenarios", "concrete cross-check on the natively compiled crates (not a solver query): n = 5 clients, t in {1,2,3}, measurements of 0/1/3/300 bytes, epochs empty/non-empty, associated data none/empty/short/200 bytes, selections with repeats, surplus, permutations and sub-threshold sets: every report survives the wire, recovery succeeds iff the selection holds t distinct shares, every selected report decrypts to exactly (measurement, aux or absence)",
                 bounds="the listed scenario family (every third scenario in quick)"))
    return {
        "obligations": obs, "level": "model_checking",
        "bounds": "component bounds of C03/C04/C06/C08/C16",
        "outside": "the end-to-end run generate -> to_bytes -> from_bytes -> share_recover -> derive key -> decrypt is NOT a single solver query (about 40 permutation calls plus two encode/decode passes exceeded 30 GB); what is decided are its components, listed here; their composition (the report's key is derive_ske_key(r0, epoch), r0 is the ADSS message, the ADSS key is the Shamir secret) is by reading Message::generate; thresholds > 3; payloads > 170 bytes; the randomness-server source (only where the 32 bytes come from)",
        "assumptions": ["Keccak-f as collision-free random oracle", "composition of the component claims as argued in DESIGN.md section 4"],
        "trusted_base": ["Kani / CBMC", "/verif/mirsmt"],
        "explanation": "component obligations of threshold recovery; see DESIGN.md for the composition argument",
    }


GGM_ASSUME = ["bitvec's BitVec/BitSlice and std's Vec are modelled semantically in the MIR interpreter (a bit vector is a list of booleans, Lsb0 order)",
              "the Strobe-based PRG is replaced by a free-algebra PRG (a seed is (root, path), a child appends the generator's bit): equalities between PRF values are decided exactly for every injective PRG; PRG security itself is outside",
              "GGMPuncturableKey::new / GGM::setup are executed from the MIR too (bitvec's bits![..] literals and the vec![..] lowering are modelled); the OS seed is an opaque root, the two generators are distinguished by the order of their setup() calls"]


NAT = "concrete cross-check on the natively compiled crates (not a solver query; turns 'the interpreter refuses the rewritten code' into a replayable counterexample): "


def ggm_spec(tier, seed, fam, what):
    obs = []
    for k, q in ((1, "q"), (2, "q"), (3, "t")):
        obs.append(M("ggm::history-k%d" % k, what + " — every history of %d symbolic puncture(s) (all 256^%d ordered histories incl. repeats) followed by one symbolic probe" % (k, k),
                     tier=q, bounds="k = %d punctures, 8-bit inputs fully symbolic; no input is enumerated (the interpreter forks only on which retained node covers an input)" % k,
                     functions=["<GGM as PPRF>::eval", "<GGM as PPRF>::puncture", "GGM::partial_eval", "GGM::bit_eval", "GGMPuncturableKey::find_prefix", "GGMPuncturableKey::puncture", "bvcast_u8_to_usize"],
                     ggm=("history", k), tags=[fam, "c10::fresh", "c10::wrong"] if fam == "c10::" else [fam]))
    obs.append(M("native::ggm-sweep", "%sreal GGM with the real Strobe PRG: all 256 values pairwise distinct; wrong lengths refused with the key unchanged; every (puncture, probe) pair of the domain; 400 seeded histories of 2..6 punctures (sibling-first, neighbours, repeats) probed at the punctured inputs, their siblings and random inputs: punctured inputs fail, all others keep their value" % NAT, bounds="concrete, seeded"))
    if fam == "c11::":
        for k, q in ((1, "q"), (2, "q"), (3, "t")):
            obs.append(M("ggm::sync-k%d" % k, "the key state exported for synchronisation after every history of %d symbolic puncture(s), imported into another server instance — a fresh one and a replica that was synchronised *before* the punctures (same OPRF and public key) — leaves the importer equal to the exporter: every puncture made so far is taken over, so the importer retains no node on the path to a punctured tag either (Server::set_private_key and Server::puncture from their MIR)" % k,
                         tier=q, bounds="k = %d punctures, symbolic tags; registered sets {0,255}, {1,2}, {}; the serde bytes of the transfer are outside (C15)" % k,
                         functions=["Server::set_private_key", "Server::puncture", "Server::new", "<GGM as PPRF>::puncture"],
                         ggm=("server", k), tags=["c14::import", "c14::puncture"]))
        obs.append(M("native::server-histories", "%sexported key state of a real Server after concrete puncture histories (via the server scenarios): see C14" % NAT, bounds="concrete"))
    return {
        "obligations": obs, "level": "model_checking",
        "bounds": "histories of up to 3 punctures (any order, any repeats) + 1 probe over the full 8-bit domain, symbolically",
        "outside": "histories longer than 3 punctures (the property's full 2^256 subsets would need the one-step invariant: not built); PRG security; serde export/import bytes (C15); the retry-free OS seed",
        "assumptions": GGM_ASSUME,
        "trusted_base": ["/verif/mirsmt interpreter + library models", "z3 4.8.12 + cvc5 1.0", "rustc nightly MIR dump of ppoprf (features key-sync)"],
        "explanation": "symbolic execution of the MIR of ppoprf::ggm with symbolic input bytes; per path the claims are SMT queries over the input bits",
    }


def c10(tier, seed):
    return ggm_spec(tier, seed, "c10::", "punctured inputs can never be evaluated or punctured again, every other input keeps exactly its pre-puncture value, distinct inputs have distinct values, wrong-length inputs are refused without changing the key")


def c11(tier, seed):
    return ggm_spec(tier, seed, "c11::", "the retained key material contains no node on the path to a punctured input (no retained prefix is a prefix of it, every retained seed is exactly its own node's value, the root secret is never stored), retained nodes are prefix-free and every unpunctured input is covered by exactly one")


def c14(tier, seed):
    obs = []
    for k, q in ((1, "q"), (2, "q"), (3, "t")):
        obs.append(M("ggm::server-k%d" % k, "Server::{new, eval, puncture, set_private_key} from their MIR on top of the GGM key: for the registered tag sets {0,255}, {1,2}, {} and every history of %d symbolic puncture(s) followed by one symbolic request (symbolic tag, symbolic point decodability): the server answers iff the point decodes, the tag was registered at creation and has not been punctured; errors are BadPointEncoding / BadTag / NoPrefixFound in that order; the answer equals the untouched server's answer for that (point, tag); a tag can be punctured exactly once; the public key and the OPRF key never change; a server importing the exported key state equals the exporter incl. all punctures so far" % k,
                     tier=q, bounds="k = %d punctures; tags and the requested tag fully symbolic (8 bits); registered sets concrete; non-verifiable mode (the proof path is group arithmetic: C13)" % k,
                     functions=["Server::new", "Server::eval", "Server::puncture", "Server::set_private_key", "ServerPublicKey::get", "<GGM as PPRF>::eval", "<GGM as PPRF>::puncture"],
                     ggm=("server", k), tags=["c14::"]))
    obs.append(M("native::server-histories", "%sreal Server (real Ristretto, real GGM): registered sets {0,255}, {1,2}, {}, a set with a repeated tag, a 7-tag set; fixed and seeded puncture histories incl. sibling orders: public key registers exactly the given tags and never changes; a tag is punctured exactly once; for every tag 0..255 the server answers iff decodable, registered and unpunctured, with the documented error otherwise, and with the untouched server's answer; clones evolve independently; export -> JSON -> import into a fresh server and into a stale replica gives the exporter's answers for all 256 tags and the same public key, also after one more puncture on both" % NAT, bounds="concrete, seeded"))
    return {
        "obligations": obs, "level": "model_checking",
        "bounds": "operation sequences: k <= 3 punctures (symbolic tags) then one request; registered sets {0,255}, {1,2}, {}",
        "outside": "interleaved evaluations between punctures (evaluation is shown to change nothing, so they commute with the history); `Clone` (derive: deep copy by ownership); the serde bytes of export/import (C15); verifiable mode and the Ristretto values themselves (C12/C13); examples/server.rs",
        "assumptions": GGM_ASSUME + ["curve25519-dalek operations (decompress, scalar arithmetic, point multiplication, compress) are uninterpreted functions; decompression succeeds or fails nondeterministically", "BTreeMap<u8, Point> modelled as an association list"],
        "trusted_base": ["/verif/mirsmt interpreter + library models", "z3 4.8.12 + cvc5 1.0"],
        "explanation": "symbolic execution of ppoprf::Server's MIR with symbolic tags; group arithmetic abstracted to uninterpreted terms so that 'the answer never changes' is term equality",
    }


TABLE = {"C10": c10, "C11": c11, "C14": c14, "C09": c09, "C07": c07, "C06": c06, "C08": c08, "C04": c04, "C16": c16, "C05": c05, "C02": c02, "C03": c03, "C01": c01}


def get(pid, tier, seed):
    f = TABLE.get(pid)
    if f is None:
        return None
    spec = f(tier, seed)
    if tier == "quick":
        spec["obligations"] = [o for o in spec["obligations"] if o.get("tier", "q") == "q"]
    # a harness registered under several properties maps its counterexamples to replay cases
    # the same way everywhere (the mapping is written once, where the harness is introduced)
    global _CASES
    if _CASES is None:
        _CASES = {}
        for g in TABLE.values():
            for x in g("thorough", seed)["obligations"]:
                if x.get("engine") == "kani" and x.get("to_case") is not None:
                    _CASES.setdefault(x["harness"], x["to_case"])
    for o in spec["obligations"]:
        o["stubs"] = [STUB_DOC.get(s, s) for s in o.get("stubs", [])]
        if o.get("engine") == "kani" and o.get("to_case") is None and o["harness"] in _CASES:
            o["to_case"] = _CASES[o["harness"]]
    return spec


_CASES = None


def match_known(known, pid, o, case):
    """A reproduced violation is a *known finding* only if a listed entry names this
    property, this obligation's role and this replay-case kind; any other violation of the
    same property is still reported."""
    for k in known.get("known", []):
        if k.get("property") != pid:
            continue
        if k.get("role") != o.get("known_role"):
            continue
        if k.get("case_kind") and k["case_kind"] != case.get("kind"):
            continue
        return k
    return None
