"""Obligation tables: what the solver is asked, per property and tier.

Each obligation: name, engine, harness, cap (seconds; (quick, thorough) or one value),
must_cover (reachability witnesses that must be SATISFIED; None = all covers of the
harness), claim / bounds / functions / stubs (copied into the evidence) and `to_case`
(maps a solver counterexample to a native replay case).
"""

STUB_DOC = {
    "barrier_noop": "zeroize::optimization_barrier (inline asm) -> no-op",
    "fp_from_repr_spec": "<Fp as PrimeField>::from_repr -> its C07-proved specification (accept iff little-endian integer < p; limbs abstracted)",
    "fp_to_repr_spec": "<Fp as PrimeField>::to_repr -> inverse of fp_from_repr_spec (C07)",
}


def flat_bytes(info, n=None):
    """Concatenate the concrete kani::any() values of the first failing-check test."""
    pbs = info.get("playback") or []
    # prefer a test generated for a failed check, not for a cover
    pbs = [t for t in pbs if "cover" not in t["for"]] or pbs
    if not pbs:
        return None
    b = b"".join(pbs[0]["vals"])
    return b if n is None else b[:n]


def case_decode(fn, n):
    def f(o, info):
        b = flat_bytes(info, n)
        if b is None or len(b) < n:
            return []
        return [{"kind": "panic_decode", "fn": fn, "bytes": b.hex()}]
    return f


def K(name, harness=None, cap=600, tier="q", **kw):
    d = {"name": name, "engine": "kani", "harness": harness or name, "cap": cap, "tier": tier}
    d.update(kw)
    return d


def c09(tier, seed):
    obs = []
    dec_stubs = ["barrier_noop", "fp_from_repr_spec"]
    obs.append(K("c09::c09_load_helpers", cap=300, claim="adss::load_u32 / load_bytes / AccessStructure::from_bytes never panic; load_bytes result lies inside the buffer",
                 bounds="every buffer length 0..=12 (symbolic length), every byte content, header = any u32",
                 functions=["adss::load_u32", "adss::load_bytes", "adss::AccessStructure::from_bytes"],
                 stubs=["barrier_noop"],
                 # symbolic length n comes after the 12 buffer bytes
                 to_case=lambda o, info: (lambda b: [{"kind": "panic_decode", "fn": "adss::load_bytes", "bytes": b[:min(12, int.from_bytes(b[12:20], "little"))].hex()}] if b and len(b) >= 20 else [])(flat_bytes(info))))
    q_sharks = [0, 24, 48]
    for n in [0, 23, 24, 25, 47, 48, 72]:
        obs.append(K("c09::c09_sharks_try_from_%d" % n, cap=400, tier="q" if n in q_sharks else "t",
                     must_cover=["accepted"] if n >= 24 else [] + ["rejected"],
                     claim="star_sharks::Share::try_from never panics",
                     bounds="all 2^(8*%d) byte strings of length %d" % (n, n),
                     functions=["star_sharks::Share::try_from"], stubs=dec_stubs,
                     to_case=case_decode("star_sharks::Share::try_from", n)))
    q_share = [0, 3, 8, 104]
    for n in [0, 3, 4, 7, 8, 16, 79, 80, 103, 104, 108, 128]:
        obs.append(K("c09::c09_share_from_bytes_%d" % n, cap=(600, 1500), tier="q" if n in q_share else "t",
                     must_cover=(["accepted"] if n >= 104 else []) + ["rejected"],
                     claim="sta_rs::Share::from_bytes / adss::Share::from_bytes never panic (inner length headers symbolic: truncation, inconsistent and huge headers included)",
                     bounds="all byte strings of length %d" % n,
                     functions=["sta_rs::Share::from_bytes", "adss::Share::from_bytes", "adss::load_bytes", "star_sharks::Share::try_from"],
                     stubs=dec_stubs, to_case=case_decode("sta_rs::Share::from_bytes", n)))
    q_msg = [0, 4, 12, 116]
    for n in [0, 3, 4, 8, 11, 12, 115, 116, 120]:
        obs.append(K("c09::c09_message_from_bytes_%d" % n, cap=(600, 1500), tier="q" if n in q_msg else "t",
                     must_cover=(["accepted"] if n >= 116 else []) + ["rejected"],
                     claim="sta_rs::Message::from_bytes never panics",
                     bounds="all byte strings of length %d" % n,
                     functions=["sta_rs::Message::from_bytes", "sta_rs::Share::from_bytes", "adss::load_bytes"],
                     stubs=dec_stubs, to_case=case_decode("sta_rs::Message::from_bytes", n)))
    return {
        "obligations": obs,
        "level": "model_checking",
        "bounds": "input lengths from the listed finite sets (<= 128 bytes), contents fully symbolic",
        "outside": "inputs longer than the listed lengths; allocation failure; panics inside Keccak/curve25519 internals replaced by stubs",
        "assumptions": ["stubs listed under coverage.stubs behave within their documented contract",
                        "Fp::from_repr/to_repr are panic-free and meet their specification (decided separately by C07)"],
        "trusted_base": ["Kani 0.68 / CBMC 6.11 / CaDiCaL", "rustc MIR of the pinned Kani toolchain"],
        "explanation": "bounded model checking (Kani/CBMC) of the real decoders over all byte strings of each listed length; panic, index, overflow, unwrap and unwinding assertions are the property",
    }


def M(name, claim, tier="q", **kw):
    d = {"name": name, "engine": "mirsmt", "harness": name, "cap": 600, "tier": tier, "claim": claim,
         "to_case": lambda o, info: info.get("playback_cases", [])}
    d.update(kw)
    return d


def c07(tier, seed):
    full = "all operands (full 3x64-bit width, a,b < p), no sampling"
    obs = [
        M("c07::translator-validation", "the MIR interpreter run on concrete vectors reproduces the natively compiled field code (encoding is faithful)", bounds="boundary lattice x itself + VERIF_SEED randoms"),
        M("c07::vectors-vs-bigint-model", "real add/sub/mul/neg/double/square/invert/sqrt/pow/from_repr/to_repr/eq/cmp/is_odd agree with Python big integers mod 2^128+12451 on the boundary lattice and seeded operands, dev and release builds", bounds="boundary lattice around 0,1,2^64,2^128,p-1,p,(p-1)/2 crossed with itself + seeded uniform operands (concrete cross-check, not the deciding step)"),
        M("c07::add_assign", "limbs(a+b) == (A+B) mod p and < p; no MIR overflow/index assert reachable", bounds=full, functions=["Fp::add_assign", "Fp::add_nocarry", "Fp::reduce", "Fp::is_valid", "Fp::cmp_native", "Fp::sub_noborrow"]),
        M("c07::sub_assign", "limbs(a-b) == (A-B) mod p and < p", bounds=full, functions=["Fp::sub_assign"]),
        M("c07::neg", "limbs(-a) == (p-A) mod p", bounds=full, functions=["Fp::neg"]),
        M("c07::double", "limbs(2a) == 2A mod p", bounds=full, functions=["Fp::double"]),
        M("c07::cmp_native", "limb comparison == integer comparison", bounds="all 192-bit limb triples (validity not assumed)", functions=["Fp::cmp_native"]),
        M("c07::is_valid", "is_valid(a) iff integer(a) < p", bounds="all 192-bit limb triples", functions=["Fp::is_valid"]),
        M("c07::mul_assign", "Montgomery product: out*2^192 == A*B (mod p), out < p, no carry lost, no MIR assert reachable", bounds=full + "; symbolic limb products are shared opaque terms with the product lemma", functions=["Fp::mul_assign", "Fp::mont_reduce", "ff::derive::mac/adc (modelled)"]),
        M("c07::square", "out*2^192 == A*A (mod p), out < p", bounds=full, functions=["Fp::square", "Fp::mont_reduce"]),
        M("c07::product-lemma", "sum a_i*b_j*2^(64(i+j)) == A*B and A*B <= (p-1)^2 for A,B < p (true nonlinear arithmetic)", bounds="all integers"),
        M("c07::to_repr", "to_repr(a) is the 24-byte little-endian encoding of t < p with t*2^192 == limbs (mod p): one canonical encoding per element", bounds=full, functions=["Fp::to_repr", "Fp::mont_reduce", "byteorder::write_u64_into (modelled)"]),
        M("c07::from_repr", "from_repr(b) is Some iff int_le(b) < p, and then the Montgomery form of that integer", bounds="all 2^192 byte strings", functions=["Fp::from_repr", "ff::derive::sbb (modelled)", "byteorder::read_u64_into (modelled)", "Fp::mul_assign (by its proved contract)"]),
        M("c07::from_u64", "Fp::from(v) is the Montgomery form of v", bounds="all u64", functions=["<Fp as From<u64>>::from"]),
        M("c07::algebra", "2^192 is invertible mod p (so the congruences above determine values uniquely)", bounds="all integers"),
        M("c07::constants", "MODULUS, R, R2, INV, NUM_BITS, CAPACITY, S, TWO_INV, MULTIPLICATIVE_GENERATOR, ROOT_OF_UNITY(_INV), DELTA, ZERO, ONE have their interface meaning (closed formulas over the constants parsed from the MIR)", bounds="ground"),
        M("c07::addition-chains", "invert raises to p-2 and sqrt to (p+1)/4: exponent tracked through the square/mul chain of the MIR, using the proved contracts of square and mul", bounds="ground", functions=["Fp::invert", "Fp::sqrt"]),
    ]
    return {
        "obligations": obs,
        "level": "proof",
        "bounds": "no bound on operands: all canonical limb triples / all 24-byte strings; loop-free or concretely-bounded MIR (3-limb iterators)",
        "outside": "ff::Field::pow / pow_vartime (default methods of the external ff crate, body not in the repository's MIR; covered only by the concrete vector cross-check); Fp::random's distribution; that a^(p-2) is the inverse and a^((p+1)/4) a square root (Fermat / Euler: number theory, assumption); that (p-1)/2 is prime (used for 'generator')",
        "assumptions": ["ff::derive::{mac,adc,sbb}, u64::wrapping_mul and byteorder::{read,write}_u64_into are modelled from their 3-line definitions (external crates)",
                        "the rustc MIR dump (-Zunpretty=mir, overflow-checks=on) is the semantics of the compiled code",
                        "p = 2^128+12451 is prime and (p-1)/2 is prime (number theory, not decided by SMT)",
                        "Fermat's little theorem / Euler's criterion for the meaning of the invert and sqrt exponents"],
        "trusted_base": ["/verif/mirsmt (MIR parser + symbolic interpreter, validated against the native build on every run)", "/usr/bin/z3 4.8.12 and cvc5 1.0 (every query sent to both)", "rustc nightly MIR dump"],
        "explanation": "symbolic execution of the MIR of the derived field code into integer SMT (wrap-around explicit), obligations decided by z3 and cvc5 for all operands",
    }


TABLE = {"C09": c09, "C07": c07}


def get(pid, tier, seed):
    f = TABLE.get(pid)
    if f is None:
        return None
    spec = f(tier, seed)
    if tier == "quick":
        spec["obligations"] = [o for o in spec["obligations"] if o.get("tier", "q") == "q"]
    for o in spec["obligations"]:
        o["stubs"] = [STUB_DOC.get(s, s) for s in o.get("stubs", [])]
    return spec


def match_known(known, pid, o, case):
    """A reproduced violation is a *known finding* only if a listed entry's role
    matches this obligation and case kind."""
    for k in known.get("known", []):
        if k.get("property") != pid:
            continue
        if k.get("obligation") and k["obligation"] != o["name"] and not o["name"].startswith(k["obligation"]):
            continue
        if k.get("case_kind") and k["case_kind"] != case.get("kind"):
            continue
        return k
    return None
