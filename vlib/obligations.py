"""Obligation tables: what the solver is asked, per property and tier.

Each obligation: name, engine, harness, cap (seconds; (quick, thorough) or one value),
must_cover (reachability witnesses that must be SATISFIED; None = all covers of the
harness), claim / bounds / functions / stubs (copied into the evidence) and `to_case`
(maps a solver counterexample to a native replay case).
"""

STUB_DOC = {
    "barrier_noop": "zeroize::optimization_barrier (inline asm) -> no-op",
    "fp_from_repr_spec": "<Fp as PrimeField>::from_repr -> its C07-proved specification (accept iff little-endian integer < p; limbs abstracted)",
    "fp_to_repr_spec": "<Fp as PrimeField>::to_repr -> inverse of fp_from_repr_spec (C07)",
}


def flat_bytes(info, n=None):
    """Concatenate the concrete kani::any() values of the first failing-check test."""
    pbs = info.get("playback") or []
    # prefer a test generated for a failed check, not for a cover
    pbs = [t for t in pbs if "cover" not in t["for"]] or pbs
    if not pbs:
        return None
    b = b"".join(pbs[0]["vals"])
    return b if n is None else b[:n]


def case_decode(fn, n):
    def f(o, info):
        b = flat_bytes(info, n)
        if b is None or len(b) < n:
            return []
        return [{"kind": "panic_decode", "fn": fn, "bytes": b.hex()}]
    return f


PANIC = ("--no-assertion-reach-checks",)
FUNC = ("--no-memory-safety-checks", "--no-overflow-checks", "--no-assertion-reach-checks")
# per-loop unwind bounds, matched against the *current* goto binary's loop list
# (function-name substring -> bound); the harness attribute gives the small default
RULES = [("strobe_rs::", 66), ("byteorder::", 26), ("keccak::f1600", 73), ("=memcmp.0", 70),
         ("index_range::IndexRange", 66), ("array::iter", 66), ("zip::", 26), ("ct_eq", 26), ("zeroize::Zeroize>::zeroize", 66),
         ("pow_inv", 6), ("RetryRng", 4), ("random_polynomial", 260), ("Evaluator::gen", 5),
         ("c04::", 140), ("c06::", 30), ("c08::", 140), ("c09::", 140), ("c16::", 140), ("c16b::", 140), ("c05::", 140),
         ("c02::", 140), ("c03::", 140), ("c01::", 140), ("c17::", 140), ("stubs::", 140), ("verif_kani::", 140)]


RULES_LONG = [("strobe_rs::", 172)] + RULES


def K(name, harness=None, cap=600, tier="q", mode="func", **kw):
    d = {"name": name, "engine": "kani", "harness": harness or name, "cap": cap, "tier": tier,
         "extra": FUNC if mode == "func" else PANIC, "unwindset": RULES, "mem": 12}
    d.update(kw)
    return d


def c09(tier, seed):
    obs = []
    dec_stubs = ["barrier_noop", "fp_from_repr_spec"]
    obs.append(K("c09::c09_load_helpers", cap=300, mode="panic", claim="adss::load_u32 / load_bytes / AccessStructure::from_bytes never panic; load_bytes result lies inside the buffer",
                 bounds="every buffer length 0..=12 (symbolic length), every byte content, header = any u32",
                 functions=["adss::load_u32", "adss::load_bytes", "adss::AccessStructure::from_bytes"],
                 stubs=["barrier_noop"],
                 # symbolic length n comes after the 12 buffer bytes
                 to_case=lambda o, info: (lambda b: [{"kind": "panic_decode", "fn": "adss::load_bytes", "bytes": b[:min(12, int.from_bytes(b[12:20], "little"))].hex()}] if b and len(b) >= 20 else [])(flat_bytes(info))))
    q_sharks = [0, 24, 48]
    for n in [0, 23, 24, 25, 47, 48, 72]:
        obs.append(K("c09::c09_sharks_try_from_%d" % n, cap=400, mode="panic", tier="q" if n in q_sharks else "t",
                     must_cover=["accepted"] if n >= 24 else [] + ["rejected"],
                     claim="star_sharks::Share::try_from never panics",
                     bounds="all 2^(8*%d) byte strings of length %d" % (n, n),
                     functions=["star_sharks::Share::try_from"], stubs=dec_stubs,
                     to_case=case_decode("star_sharks::Share::try_from", n)))
    q_share = [0, 3, 8, 104]
    for n in [0, 3, 4, 7, 8, 16, 79, 80, 103, 104, 108, 128]:
        obs.append(K("c09::c09_share_from_bytes_%d" % n, cap=(600, 1500), mode="panic", tier="q" if n in q_share else "t",
                     must_cover=(["accepted"] if n >= 104 else []) + ["rejected"],
                     claim="sta_rs::Share::from_bytes / adss::Share::from_bytes never panic (inner length headers symbolic: truncation, inconsistent and huge headers included)",
                     bounds="all byte strings of length %d" % n,
                     functions=["sta_rs::Share::from_bytes", "adss::Share::from_bytes", "adss::load_bytes", "star_sharks::Share::try_from"],
                     stubs=dec_stubs, to_case=case_decode("sta_rs::Share::from_bytes", n)))
    q_msg = [0, 4, 12, 116]
    for n in [0, 3, 4, 8, 11, 12, 115, 116, 120]:
        obs.append(K("c09::c09_message_from_bytes_%d" % n, cap=(600, 1500), mode="panic", tier="q" if n in q_msg else "t",
                     must_cover=(["accepted"] if n >= 116 else []) + ["rejected"],
                     claim="sta_rs::Message::from_bytes never panics",
                     bounds="all byte strings of length %d" % n,
                     functions=["sta_rs::Message::from_bytes", "sta_rs::Share::from_bytes", "adss::load_bytes"],
                     stubs=dec_stubs, to_case=case_decode("sta_rs::Message::from_bytes", n)))
    return {
        "obligations": obs,
        "level": "model_checking",
        "bounds": "input lengths from the listed finite sets (<= 128 bytes), contents fully symbolic",
        "outside": "inputs longer than the listed lengths; allocation failure; panics inside Keccak/curve25519 internals replaced by stubs",
        "assumptions": ["stubs listed under coverage.stubs behave within their documented contract",
                        "Fp::from_repr/to_repr are panic-free and meet their specification (decided separately by C07)"],
        "trusted_base": ["Kani 0.68 / CBMC 6.11 / CaDiCaL", "rustc MIR of the pinned Kani toolchain"],
        "explanation": "bounded model checking (Kani/CBMC) of the real decoders over all byte strings of each listed length; panic, index, overflow, unwrap and unwinding assertions are the property",
    }


def M(name, claim, tier="q", **kw):
    d = {"name": name, "engine": "mirsmt", "harness": name, "cap": 600, "tier": tier, "claim": claim,
         "to_case": lambda o, info: info.get("playback_cases", [])}
    d.update(kw)
    return d


def c07(tier, seed):
    full = "all operands (full 3x64-bit width, a,b < p), no sampling"
    obs = [
        M("c07::translator-validation", "the MIR interpreter run on concrete vectors reproduces the natively compiled field code (encoding is faithful)", bounds="boundary lattice x itself + VERIF_SEED randoms"),
        M("c07::vectors-vs-bigint-model", "real add/sub/mul/neg/double/square/invert/sqrt/pow/from_repr/to_repr/eq/cmp/is_odd agree with Python big integers mod 2^128+12451 on the boundary lattice and seeded operands, dev and release builds", bounds="boundary lattice around 0,1,2^64,2^128,p-1,p,(p-1)/2 crossed with itself + seeded uniform operands (concrete cross-check, not the deciding step)"),
        M("c07::add_assign", "limbs(a+b) == (A+B) mod p and < p; no MIR overflow/index assert reachable", bounds=full, functions=["Fp::add_assign", "Fp::add_nocarry", "Fp::reduce", "Fp::is_valid", "Fp::cmp_native", "Fp::sub_noborrow"]),
        M("c07::sub_assign", "limbs(a-b) == (A-B) mod p and < p", bounds=full, functions=["Fp::sub_assign"]),
        M("c07::neg", "limbs(-a) == (p-A) mod p", bounds=full, functions=["Fp::neg"]),
        M("c07::double", "limbs(2a) == 2A mod p", bounds=full, functions=["Fp::double"]),
        M("c07::cmp_native", "limb comparison == integer comparison", bounds="all 192-bit limb triples (validity not assumed)", functions=["Fp::cmp_native"]),
        M("c07::is_valid", "is_valid(a) iff integer(a) < p", bounds="all 192-bit limb triples", functions=["Fp::is_valid"]),
        M("c07::mul_assign", "Montgomery product: out*2^192 == A*B (mod p), out < p, no carry lost, no MIR assert reachable", bounds=full + "; symbolic limb products are shared opaque terms with the product lemma", functions=["Fp::mul_assign", "Fp::mont_reduce", "ff::derive::mac/adc (modelled)"]),
        M("c07::square", "out*2^192 == A*A (mod p), out < p", bounds=full, functions=["Fp::square", "Fp::mont_reduce"]),
        M("c07::product-lemma", "sum a_i*b_j*2^(64(i+j)) == A*B and A*B <= (p-1)^2 for A,B < p (true nonlinear arithmetic)", bounds="all integers"),
        M("c07::to_repr", "to_repr(a) is the 24-byte little-endian encoding of t < p with t*2^192 == limbs (mod p): one canonical encoding per element", bounds=full, functions=["Fp::to_repr", "Fp::mont_reduce", "byteorder::write_u64_into (modelled)"]),
        M("c07::from_repr", "from_repr(b) is Some iff int_le(b) < p, and then the Montgomery form of that integer", bounds="all 2^192 byte strings", functions=["Fp::from_repr", "ff::derive::sbb (modelled)", "byteorder::read_u64_into (modelled)", "Fp::mul_assign (by its proved contract)"]),
        M("c07::from_u64", "Fp::from(v) is the Montgomery form of v", bounds="all u64", functions=["<Fp as From<u64>>::from"]),
        M("c07::algebra", "2^192 is invertible mod p (so the congruences above determine values uniquely)", bounds="all integers"),
        M("c07::constants", "MODULUS, R, R2, INV, NUM_BITS, CAPACITY, S, TWO_INV, MULTIPLICATIVE_GENERATOR, ROOT_OF_UNITY(_INV), DELTA, ZERO, ONE have their interface meaning (closed formulas over the constants parsed from the MIR)", bounds="ground"),
        M("c07::addition-chains", "invert raises to p-2 and sqrt to (p+1)/4: exponent tracked through the square/mul chain of the MIR, using the proved contracts of square and mul", bounds="ground", functions=["Fp::invert", "Fp::sqrt"]),
    ]
    return {
        "obligations": obs,
        "level": "proof",
        "bounds": "no bound on operands: all canonical limb triples / all 24-byte strings; loop-free or concretely-bounded MIR (3-limb iterators)",
        "outside": "ff::Field::pow / pow_vartime (default methods of the external ff crate, body not in the repository's MIR; covered only by the concrete vector cross-check); Fp::random's distribution; that a^(p-2) is the inverse and a^((p+1)/4) a square root (Fermat / Euler: number theory, assumption); that (p-1)/2 is prime (used for 'generator')",
        "assumptions": ["ff::derive::{mac,adc,sbb}, u64::wrapping_mul and byteorder::{read,write}_u64_into are modelled from their 3-line definitions (external crates)",
                        "the rustc MIR dump (-Zunpretty=mir, overflow-checks=on) is the semantics of the compiled code",
                        "p = 2^128+12451 is prime and (p-1)/2 is prime (number theory, not decided by SMT)",
                        "Fermat's little theorem / Euler's criterion for the meaning of the invert and sqrt exponents"],
        "trusted_base": ["/verif/mirsmt (MIR parser + symbolic interpreter, validated against the native build on every run)", "/usr/bin/z3 4.8.12 and cvc5 1.0 (every query sent to both)", "rustc nightly MIR dump"],
        "explanation": "symbolic execution of the MIR of the derived field code into integer SMT (wrap-around explicit), obligations decided by z3 and cvc5 for all operands",
    }


SF = ["barrier_noop", "sf_*: field operations replaced by arithmetic in GF(13) (formula-level harnesses; 129-bit arithmetic is C07)",
      "fp_from_repr_spec", "is_valid stub: the acceptance test of Fp::random is assumed to pass (one pass of the rejection loop)"]


def c06(tier, seed):
    obs = []
    for h, q, claim in [
        ("c06_dealer_k1_t1", "q", "t=1: no draw, share value = secret"),
        ("c06_dealer_k1_t2", "q", "t=2: one draw d, value at x is d*x+s"),
        ("c06_dealer_k1_t3", "q", "t=3: draws d0,d1 in order, value (d0*x+d1)*x+s"),
        ("c06_dealer_k1_tail23_t2", "q", "23 trailing secret bytes are ignored"),
        ("c06_dealer_k2_t2", "q", "two secret elements: two independent polynomials, draws in order"),
        ("c06_dealer_k0_tail23", "q", "a secret shorter than one element: no polynomial, no randomness used"),
    ]:
        obs.append(K("c06::" + h, tier=q, cap=300, must_cover=["reached"],
                     claim="dealing: polynomials of exactly t coefficients, constant term = secret element, every other coefficient a separate draw (3 words each) of the supplied source; sequential iterator yields x = 1,2,3 on them (Horner reference). " + claim,
                     bounds="k <= 2 secret elements, t <= 3, every secret value / draw in GF(13)", stubs=SF,
                     functions=["Sharks::dealer_rng", "random_polynomial", "get_evaluator", "Evaluator::next", "Evaluator::evaluate"]))
    obs.append(K("c06::c06_dealer_range_t1", cap=300, must_cover=["accepted", "refused"],
                 claim="a secret containing an element not below the modulus is refused, never altered; in-range secrets are accepted",
                 bounds="all 48-byte secrets", stubs=["barrier_noop", "fp_from_repr_spec"], functions=["Sharks::dealer_rng"]))
    obs.append(K("c06::c06_gen_nonzero", cap=600, must_cover=["resampled twice", "resampled once", "accepted at once"],
                 claim="Evaluator::gen: the share point is the accepted draw of the supplied source, never 0, and the value is the polynomial at that point",
                 bounds="at most two resamples (third candidate assumed non-zero)", stubs=SF, functions=["Evaluator::gen", "Evaluator::evaluate"]))
    obs.append(K("c06::c06_interpolate_t2", cap=300, must_cover=["reached"],
                 claim="interpolate == textbook Lagrange value at 0 (reference model in the harness) for all distinct points and all values",
                 bounds="t = 2, GF(13)", stubs=SF, functions=["interpolate"]))
    obs.append(K("c06::c06_interpolate_t3", cap=600, tier="q", must_cover=["reached"],
                 claim="interpolate == textbook Lagrange value at 0 for all distinct points and all values",
                 bounds="t = 3, GF(13)", stubs=SF, functions=["interpolate"]))
    for h in ("c06_dealer_t256", "c06_dealer_t257"):
        obs.append(K("c06::" + h, tier="t", cap=1800, must_cover=["reached"],
                     claim="exactly t-1 coefficient draws also where a narrowed counter would wrap", bounds="t = 256 / 257", stubs=SF,
                     functions=["random_polynomial", "Sharks::dealer_rng"]))
    obs.append(M("mir::recover-structure",
                 "Sharks::recover (symbolic execution of its MIR, std containers modelled): unequal lengths refused; refused iff fewer than t distinct points; otherwise interpolate is applied to exactly the first t shares with pairwise distinct points in input order (so order, duplicates and surplus do not matter); no index-out-of-bounds reachable",
                 bounds="n <= 3 (quick) / 4 (thorough) shares, every length pattern with one deviating share, thresholds {0..n+1, 2^32-1}, points = arbitrary 192-bit limb triples",
                 functions=["Sharks::recover"]))
    obs.append(M("mir::recover-vectors",
                 "native Sharks::recover + interpolate agree with a Python big-integer model of textbook Shamir on every point pattern over {0,1,2,3}^n, n <= 4, thresholds 0..4 (concrete cross-check; also the source of replayable counterexamples)",
                 bounds="concrete enumeration, values seeded"))
    return {
        "obligations": obs,
        "level": "model_checking",
        "bounds": "t <= 3, k <= 2 for dealing; n <= 4 shares for recovery; field values in GF(13) for formula-level harnesses",
        "outside": "thresholds > 3 for dealing (property says 1..600), secrets of more than 2 elements, 129-bit end-to-end equivalence (obtained per operation by C07 and per formula here), Fp::random's distribution and its unbounded retry loop",
        "assumptions": ["field operations replaced by GF(13) arithmetic in formula-level harnesses; soundness of transferring the formula to the 129-bit field rests on C07 (each operation is the field operation) and on the formulas being low-degree rational functions",
                        "std BTreeSet/Vec/Option semantics modelled by hand in the MIR interpreter (BTreeSet is beyond CBMC's reach here)"],
        "trusted_base": ["Kani 0.68 / CBMC 6.11", "/verif/mirsmt interpreter + z3/cvc5", "reference models written in the harness crate / checker"],
        "explanation": "Kani harnesses compare the real dealing/evaluation/interpolation code with reference formulas over all inputs of a small field; Sharks::recover's selection logic is decided from its MIR for symbolic points",
    }


def c08(tier, seed):
    obs = []
    dec = ["barrier_noop", "fp_from_repr_spec", "fp_to_repr_spec", "Drop impls of sta_rs::Share / adss::AccessStructure (zeroisation only) -> no-op"]
    for n, q in [(23, "q"), (24, "q"), (47, "t"), (48, "q"), (50, "q"), (72, "q")]:
        obs.append(K("c08::c08_sharks_accept_%d" % n, tier=q, cap=300, must_cover=(["accepted"] if n >= 24 else []) + ["rejected"],
                     claim="star_sharks::Share::try_from accepts exactly the byte strings the independent layout parser accepts (>= 24 bytes, every whole 24-byte element canonical); number of elements agrees",
                     bounds="all byte strings of length %d" % n, stubs=dec, functions=["star_sharks::Share::try_from"]))
    for n, q in [(24, "q"), (47, "t"), (48, "q"), (50, "q"), (72, "t")]:
        obs.append(K("c08::c08_sharks_canon_%d" % n, tier=q, cap=300, must_cover=["accepted"],
                     claim="re-encoding of any accepted Shamir share is the canonical form of the input: whole 24-byte little-endian elements unchanged, ignored tail dropped",
                     bounds="all byte strings of length %d" % n, stubs=dec, functions=["star_sharks::Share::try_from", "From<&Share> for Vec<u8>"]))
    for n, q in [(8, "q"), (103, "t"), (104, "q"), (106, "t"), (128, "q"), (130, "t")]:
        obs.append(K("c08::c08_share_accept_%d" % n, tier=q, cap=600, must_cover=(["accepted"] if n >= 104 else []) + ["rejected"],
                     claim="sta_rs/adss Share::from_bytes accepts exactly what the independent parser of the documented layout accepts (truncation, inconsistent/huge length prefixes, non-canonical elements all inside the query)",
                     bounds="all byte strings of length %d, length prefixes symbolic" % n, stubs=dec,
                     functions=["adss::Share::from_bytes", "adss::load_bytes", "star_sharks::Share::try_from"]))
    for n, q in [(12, "q"), (115, "t"), (116, "q"), (120, "t"), (144, "t")]:
        obs.append(K("c08::c08_message_accept_%d" % n, tier=q, cap=900, mem=16, must_cover=(["accepted"] if n >= 116 else []) + ["rejected"],
                     claim="sta_rs::Message::from_bytes accepts exactly what the independent parser accepts (ciphertext/share/tag chunks, trailing bytes ignored)",
                     bounds="all byte strings of length %d" % n, stubs=dec, functions=["sta_rs::Message::from_bytes"]))
    obs.append(K("c08::c08_load_bytes_ref_big", cap=300, must_cover=["chunk longer than 64 KiB", "chunk of 256 bytes"],
                 claim="adss::load_bytes / load_u32 agree with the reference chunk parser (4-byte little-endian length, data right after it)",
                 bounds="every buffer length 0..=70000 and every header value (so every byte of the length prefix matters)", functions=["adss::load_bytes", "adss::load_u32"]))
    for n in (0, 255, 256, 300):
        obs.append(K("c08::c08_store_bytes_%d" % n, tier="q" if n in (0, 256) else "t", cap=300, extra=FUNC,
                     unwindset=[("c08::", 305)] + RULES,
                     claim="store_bytes writes a 4-byte little-endian length then the data; load_bytes inverts it",
                     bounds="all chunks of %d bytes" % n, functions=["adss::store_bytes", "adss::store_u32", "adss::load_bytes"]))
    adss_st = dec + ["f1600_ro: Keccak-f as collision-free random oracle", "OsRng -> arbitrary words", "is_valid stub (one pass of Fp::random)", "field mul/invert by the C07 field laws"]
    for h, q in [("c08_honest_roundtrip_1_1", "q"), ("c08_honest_roundtrip_4_0", "t")]:
        obs.append(K("c16::" + h, tier=q, cap=900, mem=30, must_cover=["reached"],
                     claim="an honestly generated ADSS share encodes as A(4 LE)|len|x(24)|y(24)|len|C|len|D|J(64) and decode(encode(v)) == v",
                     bounds="message/coins lengths per harness name, threshold 1 or 2, all contents", stubs=adss_st,
                     functions=["adss::Commune::share", "adss::Share::to_bytes", "adss::Share::from_bytes"]))
    return {
        "obligations": obs,
        "level": "model_checking",
        "bounds": "byte strings of the listed lengths (<= 144 bytes; chunk helpers up to 70000 bytes)",
        "outside": "canonical re-encoding of *arbitrary accepted* adss/sta_rs encodings (decode->encode of heap data exceeded 30 GB in CBMC; covered instead by: accept/reject agreement, the Shamir-level canonical form, and round trip of honestly generated shares); payloads > 144 bytes; ppoprf encodings (C15)",
        "assumptions": ["Fp::from_repr / to_repr replaced by their C07-proved specification (canonical little-endian bijection)"],
        "trusted_base": ["Kani 0.68 / CBMC 6.11", "the 60-line reference parser in /verif/kani/src/c08.rs"],
        "explanation": "differential harnesses: real decoders vs an independent parser of the documented layout over all byte strings of each length",
    }


def lay(info, layout):
    """split the concrete kani::any() bytes of the failing trace by a harness' input layout
    [(name, nbytes)]: the inputs are drawn first, in this order, before any stub value"""
    b = flat_bytes(info)
    if b is None:
        return None
    out, o = {}, 0
    for name, n in layout:
        if o + n > len(b):
            return None
        out[name] = b[o:o + n]
        o += n
    return out


STROBE = ["f1600_ro: Keccak-f[1600] as a collision-free random oracle (memo table over all calls; fresh outputs differ from all earlier ones in their first 16 bytes)",
          "byteorder 200-byte<->25-lane conversions written loop-free", "barrier_noop", "Strobe / MessageGenerator / SingleMeasurement / Commune / AccessStructure / sta_rs::Share Drop impls (zeroisation only) -> no-op"]
ADSS = STROBE + ["OsRng::next_u64 -> arbitrary words, counted (first word of a candidate non-zero: no resample)",
                 "Fp::is_valid stub: exact predicate, except that the acceptance test of Fp::random is assumed to pass (one pass of the rejection loop)",
                 "fp_from_repr_spec / fp_to_repr_spec (C07)", "Fp mul / invert by the C07-proved field laws (0, 1 exact; other products arbitrary non-zero)"]


def c04(tier, seed):
    obs = []
    quick_shapes = {(1, 1, 1, 1), (2, 1, 1, 2), (0, 0, 0, 0), (0, 1, 1, 0), (1, 0, 0, 1), (2, 0, 1, 1)}
    for a in range(3):
        for b in range(3):
            for c in range(3):
                for d in range(3):
                    sh = (a, b, c, d)
                    def tc(o, info, sh=sh):
                        v = lay(info, [("m1", sh[0]), ("e1", sh[1]), ("t1", 4), ("m2", sh[2]), ("e2", sh[3]), ("t2", 4)])
                        if not v:
                            return []
                        return [{"kind": "c04_triples", "m1": v["m1"].hex(), "e1": v["e1"].hex(), "t1": int.from_bytes(v["t1"], "little"),
                                 "m2": v["m2"].hex(), "e2": v["e2"].hex(), "t2": int.from_bytes(v["t2"], "little")}]
                    obs.append(K("c04::c04_inject_%d_%d_%d_%d" % sh, tier="q" if sh in quick_shapes else "t", cap=400, must_cover=[],
                                 claim="sample_local_randomness: the 32-byte randomness of two (measurement, epoch, threshold) triples is equal iff the triples are equal (boundary-shifted pairs, empty components, thresholds differing in any bit included)",
                                 bounds="|m1|=%d |e1|=%d |m2|=%d |e2|=%d, all contents, all u32 thresholds" % sh, stubs=STROBE,
                                 functions=["MessageGenerator::sample_local_randomness", "strobe_digest", "StrobeRng", "strobe_rs::Strobe"], to_case=tc))
    for sh in ((1, 1, 1, 1), (2, 1, 1, 2), (0, 0, 0, 0)):
        obs.append(K("c04::c04_inject_%d_%d_%d_%d_w" % sh, tier="t", cap=900, must_cover=(["equal triples reachable"] if sh[0] == sh[2] else []) + ["different triples reachable"],
                     claim="vacuity witness of the inject harness (both outcome classes reachable)", bounds="same shape", stubs=STROBE))
    for e1, e2 in ((1, 1), (0, 1), (2, 1)):
        def tc(o, info, e1=e1, e2=e2):
            v = lay(info, [("r1", 32), ("r2", 32), ("e1", 2), ("e2", 2)])
            return [{"kind": "c04_ske", "r1": v["r1"].hex(), "r2": v["r2"].hex(), "e1": v["e1"][:e1].hex(), "e2": v["e2"][:e2].hex()}] if v else []
        obs.append(K("c03::c04_ske_sep_%d_%d" % (e1, e2), cap=400, must_cover=(["equal"] if e1 == e2 else []) + ["different"],
                     claim="derive_ske_key(r, epoch): keys equal iff (r, epoch) equal — a different epoch never yields the clients' key",
                     bounds="|epoch| = %d / %d, all contents" % (e1, e2), stubs=STROBE, functions=["derive_ske_key", "strobe_digest"], to_case=tc))
    def tcd(o, info):
        v = lay(info, [("k1", 32), ("k2", 32), ("a1", 1), ("a2", 1)])
        return [{"kind": "c04_digest", "k1": v["k1"].hex(), "k2": v["k2"].hex(), "a1": v["a1"][0], "a2": v["a2"][0]}] if v else []
    obs.append(K("c03::c04_digest_sep", cap=400, must_cover=["equal", "different"],
                 claim="the labelled PRF of derive_random_values (strobe_digest(rnd, [i])) gives equal outputs iff (rnd, i) equal: key seed, coins and tag are separated",
                 bounds="32-byte keys, 1-byte label, all contents", stubs=STROBE, functions=["strobe_digest"], to_case=tcd))
    for h, q in (("c16_structure_m1_r1_t1", "q"), ("c16_structure_m4_r4_t2", "q")):
        obs.append(K("c16b::" + h, tier=q, cap=600, must_cover=["reached"],
                     claim="every share draws its own evaluation point from the OS RNG *after* everything else of the share was computed (so tag/key/C/D/J/polynomial do not depend on it); t-1 coefficients come from the transcript RNG",
                     bounds="see C16", stubs=ADSS, functions=["adss::Commune::share"]))
    return {
        "obligations": obs, "level": "model_checking",
        "bounds": "measurement/epoch components of 0..2 bytes (all 81 shape combinations in thorough), any u32 threshold; 32-byte randomness",
        "outside": "components longer than 2 bytes (only more absorbed rate bytes); the glue `share_with_local_randomness` -> (tag = r2, key = ske(r0, epoch), share = ADSS(t, r0, r1)) is checked only through C01's end-to-end recovery harness and by reading; probability-2^-129 coincidence of two OS-drawn points",
        "assumptions": ["Keccak-f[1600] behaves as a collision-free random oracle (ideal permutation, no truncated collisions): the cryptographic assumption of every 'equal iff' claim"],
        "trusted_base": ["Kani 0.68 / CBMC 6.11", "strobe-rs 0.10 real code (only keccak::f1600 is replaced)"],
        "explanation": "two-run harnesses over the real Strobe framing with the permutation as a memoising random oracle: the solver decides 'outputs equal iff inputs equal' for all contents of each shape",
    }


def adss_case(o, info, layout, **kw):
    v = lay(info, layout)
    if not v:
        return []
    c = {"kind": "adss_scenario"}
    c.update(kw)
    for k, b in v.items():
        c[k] = b.hex()
    return [c]


def c16(tier, seed):
    obs = []
    for h, (ml, rl, t), q in (("c16_structure_m1_r1_t1", (1, 1, 1), "q"), ("c16_structure_m4_r4_t2", (4, 4, 2), "q"),
                              ("c16_structure_m0_r0_t1", (0, 0, 1), "q"), ("c16_structure_m4_r0_t3", (4, 0, 3), "t")):
        def tc(o, info, ml=ml, rl=rl, t=t):
            v = lay(info, [("m", 8), ("r", 8)])
            return [{"kind": "adss_scenario", "m": v["m"][:ml].hex(), "r": v["r"][:rl].hex(), "t": t, "n_shares": t, "expect_ok": True}] if v else []
        obs.append(K("c16b::" + h, tier=q, cap=600, must_cover=["reached"],
                     claim="share(): everything except the point and the values at it is computed before the single OS draw, hence a deterministic function of (threshold, message, coins); exactly t-1 coefficient draws from the transcript-seeded RNG; J = MAC output over (A, M, R), C = M xor keystream(K), D = R xor keystream(K, C); for t = 1 the value is K||0",
                     bounds="|M|=%d |R|=%d t=%d, all contents" % (ml, rl, t), stubs=ADSS, functions=["adss::Commune::share", "adss::Share::to_bytes", "StrobeRng", "Sharks::dealer_rng", "Evaluator::gen"], to_case=tc))
    for h, (ml, rl), q in (("c16_recover_t1_m1_r1", (1, 1), "t"), ("c16_recover_t1_m4_r0", (4, 0), "t"), ("c16_recover_t1_m0_r4", (0, 4), "t")):
        def tc(o, info, ml=ml, rl=rl):
            v = lay(info, [("m", 8), ("r", 8)])
            return [{"kind": "adss_scenario", "m": v["m"][:ml].hex(), "r": v["r"][:rl].hex(), "t": 1, "n_shares": 1, "expect_ok": True}] if v else []
        obs.append(K("c16b::" + h, tier=q, cap=2400, mem=50, must_cover=["reached"],
                     claim="threshold 1: share -> recover returns exactly the message (decrypt with the interpolated key, MAC re-verified)",
                     bounds="|M|=%d |R|=%d" % (ml, rl), stubs=ADSS + ["Sharks::recover by its Engine-M-proved selection model (BTreeSet is beyond CBMC)"],
                     functions=["adss::recover", "adss::Commune::verify", "interpolate"], to_case=tc))
    obs.append(K("c16b::c16_custom_transcript_rejected", tier="t", cap=2400, mem=50, must_cover=["reached"],
                 claim="a share created under a different authenticated transcript is rejected by recover",
                 bounds="|M|=|R|=2, t=1", stubs=ADSS, functions=["adss::recover"],
                 to_case=lambda o, info: adss_case(o, info, [("m", 2), ("r", 2)], t=1, n_shares=1, custom_transcript=True)))
    obs.append(K("c16b::c16_threshold_zero", tier="q", cap=900, must_cover=["reached"],
                 claim="threshold 0 never recovers (refused before any decryption)", bounds="|M|=|R|=2", stubs=ADSS, functions=["adss::recover", "interpolate"],
                 to_case=lambda o, info: adss_case(o, info, [("m", 2)], t=0, n_shares=1)))
    obs.append(M("mir::recover-structure", "Sharks::recover selection logic (see C06): any t shares with distinct points are what interpolation receives, independent of order/duplicates/surplus",
                 bounds="n <= 3/4, symbolic points"))
    return {
        "obligations": obs, "level": "model_checking",
        "bounds": "message / coins of 0..4 bytes, thresholds 0..3",
        "outside": "message/coin lengths > 4 (in particular the 166-byte rate boundary and 100 kB); thresholds > 3; t >= 2 recovery end-to-end at 129 bits (composition of: all shares lie on one polynomial [structure harness] + C06 interpolation + C07 field); custom transcripts other than one fresh Strobe",
        "assumptions": ["Keccak-f as collision-free random oracle", "C07 field laws for the stubs of mul/invert/from_repr/to_repr"],
        "trusted_base": ["Kani 0.68 / CBMC 6.11", "strobe-rs real code"],
        "explanation": "single-sharing harnesses over the real adss code; the permutation log makes 'deterministic up to the share point' and the masking/MAC structure decidable",
    }


def c05(tier, seed):
    obs = []
    fields = [("threshold", 0, "q"), ("c", 1, "t"), ("d", 2, "t"), ("j", 3, "q")]
    for name, which, q in fields:
        def tc(o, info, which=which):
            v = lay(info, [("m", 2), ("r", 2), ("nt", 4), ("nc", 2), ("nj", 64)])
            if not v:
                return []
            lo, hi, nb = {0: (0, 4, v["nt"]), 1: (60, 62, v["nc"]), 2: (66, 68, v["nc"]), 3: (68, 132, v["nj"])}[which]
            return [{"kind": "adss_scenario", "m": v["m"].hex(), "r": v["r"].hex(), "t": 1, "n_shares": 1, "fault_lo": lo, "fault_hi": hi,
                     "fault_bytes": nb.hex(), "must_reject": True}]
        obs.append(K("c16b::c05_fault_" + name, tier=q, cap=2400, mem=24, must_cover=["rejected"],
                     claim="the %s field of the ciphertext-supplying share replaced by arbitrary different content: recovery always returns an error" % name,
                     bounds="honest threshold-1 sharing of 2-byte message and coins; the whole field arbitrary (subsumes every bit/byte fault); threshold fault: the Shamir layer returns an arbitrary key; C/D/J faults: it returns the honest key (single-field fault; with a chosen key and a matching tag an attacker presents his own consistent sharing); altered x / y only change the key and are covered by c05_any_interpolated_key",
                     stubs=ADSS + ["Sharks::recover -> arbitrary key (threshold) / the honest key K||0 from the log (C, D, J)", "faulty share built through the cfg(kani) hook adss::Share::verif_from_parts"],
                     functions=["adss::recover", "adss::Commune::verify"], to_case=tc))
    obs.append(K("c16b::c05_any_interpolated_key", tier="q", cap=2400, mem=24, must_cover=["rejected", "accepted with the original message"],
                 claim="whatever key the Shamir layer hands back (any mixture of foreign, altered, repeated, surplus points): the result is an error or exactly the message of the first share's sharing",
                 bounds="honest threshold-2 sharing of 2-byte message/coins; interpolated key = arbitrary 24 bytes or error", stubs=ADSS + ["Sharks::recover -> arbitrary Ok(24 bytes) / Err"],
                 functions=["adss::recover", "adss::Commune::verify"],
                 to_case=lambda o, info: adss_case(o, info, [("m", 2), ("r", 2)], t=2, n_shares=2, expect_ok=True)))
    return {
        "obligations": obs, "level": "model_checking",
        "bounds": "2-byte message and coins, thresholds 1-2, one altered field per query (whole field arbitrary)",
        "outside": "longer messages; simultaneous alteration of several fields (subsumed for the key path by the arbitrary-key harness); forgeries that need a permutation collision",
        "assumptions": ["Keccak-f as collision-free random oracle: an adversarially chosen J equals a fresh MAC output only by collision"],
        "trusted_base": ["Kani 0.68 / CBMC 6.11"],
        "explanation": "fault model: the solver chooses the replacement content of one field / the interpolated key; assertion: Err or the original message",
    }


def c02(tier, seed):
    obs = []
    obs.append(M("mir::recover-structure", "counting gate: Sharks::recover refuses iff fewer than t distinct points (duplicates do not count, any order), from its MIR with symbolic points",
                 bounds="n <= 3/4 shares, thresholds 0..n+1 and 2^32-1"))
    obs.append(M("mir::recover-vectors", "native cross-check of the gate on every point pattern over {0..3}^n", bounds="concrete"))
    obs.append(K("c16b::c02_gate_refusal_propagates", tier="q", cap=900, mem=20, must_cover=["reached"],
                 claim="adss::recover propagates a refusal of the Shamir layer (fewer than threshold distinct shares) before any decryption",
                 bounds="2-byte message", stubs=ADSS, functions=["adss::recover"],
                 to_case=lambda o, info: adss_case(o, info, [("m", 2)], t=2, n_shares=1)))
    for h in ("c16_structure_m1_r1_t1", "c16_structure_m4_r4_t2"):
        obs.append(K("c16b::" + h, tier="q", cap=600, must_cover=["reached"],
                     claim="structural non-disclosure of one share: every byte of the encoded share is a public length/threshold, the OS-drawn point, a polynomial value, M xor keystream, R xor keystream' or the MAC output; K, M, R never appear as such (t >= 2); polynomial has exactly t-1 separately drawn coefficients",
                     bounds="see C16", stubs=ADSS, functions=["adss::Commune::share"]))
    obs.append(K("c16b::c05_fault_threshold", tier="t", cap=2400, mem=50, must_cover=["rejected"],
                 claim="a rewritten threshold (any other value) is always rejected: the threshold is bound by the MAC", bounds="see C05", stubs=ADSS))
    for h in ("c06_dealer_t256", "c06_dealer_t257"):
        obs.append(K("c06::" + h, tier="t", cap=1800, must_cover=["reached"],
                     claim="degree is exactly t-1 also for thresholds beyond one byte: t-1 coefficient draws", bounds="t = 256 / 257", stubs=SF))
    return {
        "obligations": obs, "level": "model_checking",
        "bounds": "n <= 4 shares, thresholds <= 4 (and 256/257 for the draw count), 2-byte messages",
        "outside": "the statistical clauses (coefficients non-zero, pairwise distinct, different between measurements; t-1 points reveal nothing) are probabilistic / information-theoretic and are not decided by a solver: each coefficient is shown to be a separate draw; the report-level scan of Message::to_bytes (tag, ciphertext) is covered by C03's masking harness and C04's separation harnesses",
        "assumptions": ["Keccak-f as collision-free random oracle"],
        "trusted_base": ["Kani / CBMC", "/verif/mirsmt"],
        "explanation": "structural decision of the counting gate (MIR), MAC binding of the threshold and the masking structure of a share",
    }


def c03(tier, seed):
    obs = []
    def tcm(n):
        def f(o, info):
            v = lay(info, [("key", 16), ("data", 12 if n <= 12 else 170)])
            return [{"kind": "c03_masking", "key": v["key"].hex(), "data": v["data"][:n].hex()}] if v else []
        return f
    obs.append(K("c03::c03_masking_12", cap=400, must_cover=["reached"],
                 claim="Ciphertext::new: every ciphertext byte is payload xor keystream(key) (never the payload itself), length = payload length, decrypt inverts it",
                 bounds="16-byte key, 12-byte payload, all contents", stubs=STROBE, functions=["Ciphertext::new", "Ciphertext::decrypt"], to_case=tcm(12)))
    obs.append(K("c03::c03_masking_1", tier="t", cap=400, must_cover=["reached"], claim="as above", bounds="1-byte payload", stubs=STROBE, to_case=tcm(1)))
    obs.append(K("c03::c03_masking_170", tier="q", cap=900, must_cover=["second block"],
                 claim="payload spanning two 166-byte rate blocks: every byte masked, also past the block boundary",
                 bounds="170-byte payload, arbitrary position", stubs=STROBE, functions=["Ciphertext::new"], to_case=tcm(170), unwindset=RULES_LONG))
    def tcr(o, info):
        v = lay(info, [("key", 16), ("d1", 6), ("d2", 6)])
        if not v:
            return []
        return [{"kind": "c03_reuse", "m": "6d", "e": "65", "t": 2, "aux1": v["d1"].hex(), "aux2": v["d2"].hex()}]
    obs.append(K("c03::c03_keystream_reuse", cap=400, must_cover=[],
                 claim="two payloads under the key of one measurement: the ciphertext difference must not equal the plaintext difference (fails: D7, known finding)",
                 bounds="6-byte payloads", stubs=STROBE, functions=["Ciphertext::new", "Message::generate (native replay)"], to_case=tcr,
                 known_role="keystream-reuse-first-block"))
    for e1, e2 in ((1, 1),):
        obs.append(K("c03::c04_ske_sep_%d_%d" % (e1, e2), cap=400, must_cover=["equal", "different"],
                     claim="the payload key is derive_ske_key(r0, epoch): a function of secret r0 (not carried in the report: r0 only appears as C = r0 xor keystream(K))", bounds="see C04", stubs=STROBE))
    return {
        "obligations": obs, "level": "model_checking",
        "bounds": "payloads of 1, 12 and 170 bytes",
        "outside": "report-level composition (Message::generate = digests + ADSS share + Ciphertext::new under derive_ske_key(r0, epoch)) is by reading plus C01/C04; 'cannot be decrypted with any value carried in the report' is the key-secrecy argument of C02/C16 (K and r0 never in clear), not a solver query",
        "assumptions": ["Keccak-f as collision-free random oracle"],
        "trusted_base": ["Kani / CBMC"],
        "explanation": "the permutation log identifies the keystream: masking is decided byte by byte; keystream reuse across reports is reported as the known finding D7",
    }


def c01(tier, seed):
    obs = []
    for h in ("c01_framing_3_2", "c01_framing_0_0", "c01_framing_3_none"):
        obs.append(K("c03::" + h, cap=300, must_cover=["reached"],
                     claim="payload framing len|measurement [len|aux]: parses back to exactly the measurement and the associated data; absent and empty associated data are distinguishable",
                     bounds="measurement / aux up to 4 bytes", functions=["store_bytes", "load_bytes"]))
    obs.append(K("c03::c03_masking_12", cap=400, must_cover=["reached"], claim="Ciphertext::decrypt under the same key inverts Ciphertext::new", bounds="12-byte payload", stubs=STROBE))
    obs.append(K("c03::c04_ske_sep_1_1", cap=400, must_cover=["equal", "different"], claim="the server re-derives the clients' payload key from (recovered message, epoch): derive_ske_key is a function of exactly these", bounds="see C04", stubs=STROBE))
    obs.append(K("c16::c08_honest_roundtrip_1_1", cap=900, mem=30, must_cover=["reached"], claim="an honestly generated share survives encode -> decode unchanged", bounds="see C08", stubs=ADSS))
    obs.append(K("c16b::c16_structure_m4_r4_t2", cap=600, must_cover=["reached"], claim="all clients of one (threshold, message, coins) sharing hold points of one polynomial (coefficients and C, D, J do not depend on the client's OS draw)", bounds="see C16", stubs=ADSS))
    obs.append(M("mir::recover-structure", "any selection containing t distinct shares reaches interpolation with exactly the first t distinct ones: order, repeated and surplus reports do not matter", bounds="n <= 3/4"))
    obs.append(K("c06::c06_interpolate_t2", cap=300, must_cover=["reached"], claim="interpolation of t distinct points is the Lagrange value at 0", bounds="t=2, GF(13)", stubs=SF))
    obs.append(K("c06::c06_interpolate_t3", cap=600, tier="t", must_cover=["reached"], claim="as above", bounds="t=3, GF(13)", stubs=SF))
    for h in ("c16_recover_t1_m1_r1",):
        obs.append(K("c16b::" + h, tier="t", cap=2400, mem=50, must_cover=["reached"], claim="threshold 1: share -> recover returns exactly the message", bounds="see C16", stubs=ADSS))
    return {
        "obligations": obs, "level": "model_checking",
        "bounds": "component bounds of C03/C04/C06/C08/C16",
        "outside": "the end-to-end run generate -> to_bytes -> from_bytes -> share_recover -> derive key -> decrypt is NOT a single solver query (about 40 permutation calls plus two encode/decode passes exceeded 30 GB); what is decided are its components, listed here; their composition (the report's key is derive_ske_key(r0, epoch), r0 is the ADSS message, the ADSS key is the Shamir secret) is by reading Message::generate; thresholds > 3; payloads > 170 bytes; the randomness-server source (only where the 32 bytes come from)",
        "assumptions": ["Keccak-f as collision-free random oracle", "composition of the component claims as argued in DESIGN.md section 4"],
        "trusted_base": ["Kani / CBMC", "/verif/mirsmt"],
        "explanation": "component obligations of threshold recovery; see DESIGN.md for the composition argument",
    }


TABLE = {"C09": c09, "C07": c07, "C06": c06, "C08": c08, "C04": c04, "C16": c16, "C05": c05, "C02": c02, "C03": c03, "C01": c01}


def get(pid, tier, seed):
    f = TABLE.get(pid)
    if f is None:
        return None
    spec = f(tier, seed)
    if tier == "quick":
        spec["obligations"] = [o for o in spec["obligations"] if o.get("tier", "q") == "q"]
    for o in spec["obligations"]:
        o["stubs"] = [STUB_DOC.get(s, s) for s in o.get("stubs", [])]
    return spec


def match_known(known, pid, o, case):
    """A reproduced violation is a *known finding* only if a listed entry names this
    property, this obligation's role and this replay-case kind; any other violation of the
    same property is still reported."""
    for k in known.get("known", []):
        if k.get("property") != pid:
            continue
        if k.get("role") != o.get("known_role"):
            continue
        if k.get("case_kind") and k["case_kind"] != case.get("kind"):
            continue
        return k
    return None
