"""Independent Python parser of the documented wire layout (used to turn solver models of
the C08 harnesses into native replay cases with an expected verdict)."""
P = 2**128 + 12451


def chunk(b, o, end):
    if end < o or end - o < 4:
        return None
    n = int.from_bytes(b[o:o + 4], "little")
    if end - o - 4 < n:
        return None
    return o + 4, n


def sharks(b):
    """-> canonical bytes or None"""
    if len(b) < 24:
        return None
    cnt = len(b) // 24
    for i in range(cnt):
        if int.from_bytes(b[24 * i:24 * i + 24], "little") >= P:
            return None
    return bytes(b[:24 * cnt])


def share(b):
    if len(b) < 4:
        return None
    end = len(b)
    c1 = chunk(b, 4, end)
    if not c1:
        return None
    so, sn = c1
    c2 = chunk(b, so + sn, end)
    if not c2:
        return None
    co, cn = c2
    c3 = chunk(b, co + cn, end)
    if not c3:
        return None
    do, dn = c3
    if end - (do + dn) != 64:
        return None
    s = sharks(b[so:so + sn])
    if s is None:
        return None
    return bytes(b[:4]) + len(s).to_bytes(4, "little") + s + bytes(b[co - 4:co + cn]) + bytes(b[do - 4:do + dn]) + bytes(b[do + dn:])


def message(b):
    end = len(b)
    c1 = chunk(b, 0, end)
    if not c1:
        return None
    co, cn = c1
    c2 = chunk(b, co + cn, end)
    if not c2:
        return None
    so, sn = c2
    sh = share(b[so:so + sn])
    if sh is None:
        return None
    c3 = chunk(b, so + sn, end)
    if not c3:
        return None
    to, tn = c3
    return bytes(b[:co + cn]) + len(sh).to_bytes(4, "little") + sh + bytes(b[to - 4:to + tn])


def load_bytes(b):
    c = chunk(b, 0, len(b))
    return None if c is None else bytes(b[c[0]:c[0] + c[1]])
