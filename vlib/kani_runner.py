"""Engine K runner: one `cargo kani` process per obligation, pool of target dirs.

Fail-closed: anything that is not `VERIFICATION:- SUCCESSFUL` with every required
cover SATISFIED is either a *failure* (a property/panic check failed: candidate
counterexample, to be replayed natively) or *inconclusive* (timeout, OOM, unwinding
assertion, unsupported construct, compile error).
"""
import fcntl
import os
import queue
import re
import resource
import shutil
import subprocess
import threading
import time

VERIF = os.path.dirname(os.path.dirname(os.path.abspath(__file__)))
KANI_CRATE = os.path.join(VERIF, "kani")
CACHE = os.path.join(VERIF, ".cache")
REPO = os.environ.get("VERIF_REPO", "/repo")

ENV = dict(os.environ)
ENV["CARGO_NET_OFFLINE"] = "true"
ENV.pop("RUSTUP_TOOLCHAIN", None)
# the cfg(kani) hook in ppoprf::ggm includes the harness bodies from this directory
ENV["VERIF_KIN_DIR"] = os.path.join(VERIF, "kin")


def _limit(mem_gb):
    def f():
        b = int(mem_gb * (1 << 30))
        resource.setrlimit(resource.RLIMIT_AS, (b, b))
        os.setsid()
    return f


def sync_lock(crate_dir=KANI_CRATE):
    """Cargo.lock of the harness crate is regenerated from /repo's on every run."""
    src = os.path.join(REPO, "Cargo.lock")
    dst = os.path.join(crate_dir, "Cargo.lock")
    shutil.copyfile(src, dst)


class Slots:
    """Pool of cargo-kani target dirs under /verif/.cache (built lazily, reused)."""

    def __init__(self, n, prefix="kt", crate_dir=KANI_CRATE):
        os.makedirs(CACHE, exist_ok=True)
        self.q = queue.Queue()
        self.n = n
        self.prefix = prefix
        self.crate_dir = crate_dir
        self.locks = []
        base = None
        for i in range(64):
            if len(self.locks) >= n:
                break
            d = os.path.join(CACHE, "%s%d" % (prefix, i))
            lf = open(d + ".lock", "w")
            try:
                fcntl.flock(lf, fcntl.LOCK_EX | fcntl.LOCK_NB)
            except OSError:
                lf.close()
                continue  # used by another concurrently running check
            self.locks.append(lf)
            if os.path.isdir(d) and base is None:
                base = d
            self.q.put(d)
        self.base = base

    def prepare(self, log):
        """Make sure every slot has the dependency build (copy a built one)."""
        dirs = list(self.q.queue)
        built = [d for d in dirs if os.path.isdir(os.path.join(d, "kani"))]
        if not built:
            # look for any built slot, even one owned by another process
            for i in range(64):
                d = os.path.join(CACHE, "%s%d" % (self.prefix, i))
                if os.path.isdir(os.path.join(d, "kani")):
                    built.append(d)
                    break
        if not built:
            d0 = dirs[0]
            t = time.time()
            cmd = ["cargo", "kani", "--target-dir", d0, "-Z", "stubbing", "--only-codegen",
                   "--exact", "--harness", "warmup::warmup"]
            r = subprocess.run(cmd, cwd=self.crate_dir, env=ENV, stdout=subprocess.PIPE,
                               stderr=subprocess.STDOUT, text=True)
            log("warm-up build of %s: rc=%d %.0fs" % (d0, r.returncode, time.time() - t))
            if r.returncode != 0:
                log(r.stdout[-3000:])
                raise RuntimeError("kani warm-up build failed")
            built = [d0]
        for d in dirs:
            if not os.path.isdir(os.path.join(d, "kani")):
                shutil.rmtree(d, ignore_errors=True)
                subprocess.run(["cp", "-r", built[0], d], check=True)


RE_CHECK = re.compile(r"^Check (\d+): (.*)$")
RE_STATUS = re.compile(r"^\s*- Status: (\w+)")
RE_DESC = re.compile(r'^\s*- Description: "(.*)"$')
RE_LOC = re.compile(r"^\s*- Location: (.*)$")


def parse_kani_output(out):
    res = {"verdict": None, "checks": 0, "failed": [], "covers": {}, "verif_time": None,
           "unwind_fail": False, "unsupported": False}
    cur = None
    for line in out.splitlines():
        m = RE_CHECK.match(line)
        if m:
            cur = {"id": m.group(2), "status": None, "desc": None, "loc": None}
            res["checks"] += 1
            continue
        if cur is not None:
            m = RE_STATUS.match(line)
            if m:
                cur["status"] = m.group(1)
                continue
            m = RE_DESC.match(line)
            if m:
                cur["desc"] = m.group(1)
                continue
            m = RE_LOC.match(line)
            if m:
                cur["loc"] = m.group(1)
                if ".cover." in cur["id"]:
                    res["covers"][cur["desc"]] = cur["status"]
                elif cur["status"] == "FAILURE":
                    res["failed"].append(cur)
                    if "unwinding assertion" in (cur["desc"] or ""):
                        res["unwind_fail"] = True
                    if "not currently supported by Kani" in (cur["desc"] or ""):
                        res["unsupported"] = True
                cur = None
                continue
        if line.startswith("VERIFICATION:- "):
            res["verdict"] = line.split("VERIFICATION:- ")[1].strip()
        m = re.match(r"^Verification Time: ([0-9.]+)s", line)
        if m:
            res["verif_time"] = float(m.group(1))
    return res


def parse_playback(out):
    """Concrete values printed by --concrete-playback=print: list of tests, each a
    dict {for: description, vals: [bytes...]} in kani::any() call order."""
    tests = []
    cur = None
    for line in out.splitlines():
        s = line.strip()
        if s.startswith("/// Check for"):
            cur = {"for": s, "vals": []}
            tests.append(cur)
        elif s.startswith("vec![") and s.endswith("],") and cur is not None and "concrete_vals" not in s:
            body = s[len("vec!["):-2].strip()
            cur["vals"].append(bytes(int(x) for x in body.split(",") if x.strip()) if body else b"")
    return tests


def loop_unwindset(harness, slot, rules, crate_dir=KANI_CRATE, cwd=None, extra=()):
    """Per-loop unwind bounds derived from the *current* goto binary: compile only,
    list the loops with `cbmc --show-loops`, and give every loop whose (pretty)
    function name contains a rule's substring that rule's bound (first match wins)."""
    import glob
    cmd = ["cargo", "kani", "--target-dir", slot, "-Z", "stubbing", "-Z", "unstable-options",
           "--only-codegen", "--exact", "--harness", harness] + [e for e in extra if e.startswith("--features") or e.startswith("-p")]
    r = subprocess.run(cmd, cwd=cwd or crate_dir, env=ENV, stdout=subprocess.PIPE,
                       stderr=subprocess.STDOUT, text=True, timeout=900)
    if r.returncode != 0:
        return None, "codegen failed: " + r.stdout[-800:]
    fn = harness.split("::")[-1]
    pat = os.path.join(slot, "kani", "*", "debug", "build", "*", "*", "out", "*%d%s.out" % (len(fn), fn))
    files = [f for f in glob.glob(pat) if not f.endswith(".symtab.out")]
    if not files:
        pat = os.path.join(slot, "kani", "*", "debug", "deps", "*%d%s.out" % (len(fn), fn))
        files = [f for f in glob.glob(pat) if not f.endswith(".symtab.out")]
    if not files:
        return None, "goto binary not found for " + harness
    f = max(files, key=os.path.getmtime)
    r = subprocess.run(["cbmc", "--show-loops", f], stdout=subprocess.PIPE, stderr=subprocess.STDOUT, text=True, timeout=300)
    lines = r.stdout.splitlines()
    pairs = []
    for i, line in enumerate(lines):
        if line.startswith("Loop ") and line.endswith(":") and i + 1 < len(lines):
            lid = line[5:-1]
            m = re.search(r" function (.*)$", lines[i + 1])
            pairs.append((lid, m.group(1) if m else ""))
    us = ["%s:%d" % (sub[1:], n) for sub, n in rules if sub.startswith("=")]  # literal loop ids (CPROVER library)
    for lid, fnname in pairs:
        for sub, n in rules:
            if sub in fnname:
                us.append("%s:%d" % (lid, n))
                break
    return ",".join(us), "%d loops, %d with explicit bounds" % (len(pairs), len(us))


def run_kani(harness, slot, cap_s, mem_gb=12, extra=(), playback=False, logdir=None,
             crate_dir=KANI_CRATE, cwd=None, unwindset=None):
    cmd = ["cargo", "kani", "--target-dir", slot, "-Z", "stubbing", "-Z", "unstable-options"]
    if playback:
        cmd += ["-Z", "concrete-playback", "--concrete-playback=print"]
    cmd += ["--exact", "--harness", harness]
    cmd += list(extra)
    if unwindset:
        us, note = loop_unwindset(harness, slot, unwindset, crate_dir, cwd, extra)
        if us is None:
            return {"verdict": None, "checks": 0, "failed": [], "covers": {}, "verif_time": None,
                    "unwind_fail": False, "unsupported": False, "wall_s": 0, "rc": -1,
                    "timed_out": False, "raw_tail": note}
        if us:
            cmd += ["--cbmc-args", "--unwindset", us]
    t0 = time.time()
    timed_out = False
    p = subprocess.Popen(cmd, cwd=cwd or crate_dir, env=ENV, stdout=subprocess.PIPE,
                         stderr=subprocess.STDOUT, text=True, preexec_fn=_limit(mem_gb))
    try:
        out, _ = p.communicate(timeout=cap_s)
    except subprocess.TimeoutExpired:
        timed_out = True
        try:
            os.killpg(p.pid, 9)
        except ProcessLookupError:
            pass
        out, _ = p.communicate()
    wall = time.time() - t0
    if logdir:
        os.makedirs(logdir, exist_ok=True)
        with open(os.path.join(logdir, harness.replace("::", "__") + (".pb" if playback else "") + ".log"), "w") as f:
            f.write(" ".join(cmd) + "\n" + out)
    res = parse_kani_output(out)
    res["wall_s"] = round(wall, 1)
    res["rc"] = p.returncode
    res["timed_out"] = timed_out
    res["raw_tail"] = out[-1500:]
    if playback:
        res["playback"] = parse_playback(out)
    return res


def classify(res, must_cover=None):
    """-> ('pass'|'fail'|'inconclusive', reason)"""
    if res["timed_out"]:
        return "inconclusive", "timeout after %.0fs" % res["wall_s"]
    if res["verdict"] is None:
        return "inconclusive", "no verdict (rc=%s): %s" % (res["rc"], res["raw_tail"][-300:].replace("\n", " | "))
    if res["unsupported"]:
        return "inconclusive", "unsupported construct reachable"
    if res["verdict"] == "SUCCESSFUL":
        covers = res["covers"]
        need = list(covers) if must_cover is None else must_cover
        missing = [c for c in need if covers.get(c) != "SATISFIED"]
        if missing:
            return "inconclusive", "vacuity witness not satisfied: %s" % missing
        return "pass", ""
    # FAILED
    real = [f for f in res["failed"] if "unwinding assertion" not in (f["desc"] or "")]
    if not res["failed"]:
        return "inconclusive", "FAILED without failed checks (solver error/OOM?): " + res["raw_tail"][-300:].replace("\n", " | ")
    if not real:
        return "inconclusive", "unwinding assertion failed (bound too small)"
    return "fail", "; ".join("%s @ %s" % (f["desc"], f["loc"]) for f in real[:4])


def run_many(jobs, nslots, log, logdir, prefix="kt", crate_dir=KANI_CRATE):
    """jobs: list of dicts with keys harness, cap, mem, extra, must_cover.
    Returns list of results in job order."""
    sync_lock(crate_dir)
    slots = Slots(min(nslots, max(1, len(jobs))), prefix=prefix, crate_dir=crate_dir)
    slots.prepare(log)
    results = [None] * len(jobs)
    jq = queue.Queue()
    # heavy jobs first (longest-processing-time order keeps the tail short)
    for i, j in sorted(enumerate(jobs), key=lambda x: -x[1].get("mem", 12)):
        jq.put((i, j))
    budget = {"free": float(os.environ.get("VERIF_MEM_GB", "54"))}
    cv = threading.Condition()

    def worker():
        while True:
            try:
                i, j = jq.get_nowait()
            except queue.Empty:
                return
            need = min(float(j.get("mem", 12)), float(os.environ.get("VERIF_MEM_GB", "54")))
            # memory-aware admission: the sum of the address-space caps of running jobs
            # stays below the machine's RAM (no swap on this image)
            with cv:
                while budget["free"] < need:
                    cv.wait()
                budget["free"] -= need
            slot = slots.q.get()
            try:
                r = run_kani(j["harness"], slot, j.get("cap", 600), j.get("mem", 12),
                             j.get("extra", ()), logdir=logdir, crate_dir=crate_dir, cwd=j.get("cwd"),
                             unwindset=j.get("unwindset"))
                st, why = classify(r, j.get("must_cover"))
                if st == "inconclusive" and "solver error/OOM" in why and float(j.get("mem", 12)) < 40:
                    # CBMC died inside its address-space cap (typical for code that grew): one retry
                    # with a larger cap, admitted like any other job
                    big = min(48.0, max(30.0, 2.5 * float(j.get("mem", 12))), float(os.environ.get("VERIF_MEM_GB", "54")))
                    if big > need:
                        with cv:
                            budget["free"] += need
                            cv.notify_all()
                            need = big
                            while budget["free"] < need:
                                cv.wait()
                            budget["free"] -= need
                        log("  [....] %-46s retry with a %d GB cap after: %s" % (j["harness"], int(big), why[:80]))
                        r = run_kani(j["harness"], slot, j.get("cap", 600), big,
                                     j.get("extra", ()), logdir=logdir, crate_dir=crate_dir, cwd=j.get("cwd"),
                                     unwindset=j.get("unwindset"))
                        st, why = classify(r, j.get("must_cover"))
                        j = dict(j, mem=big)
                if st == "fail":
                    # second run to obtain concrete values for native replay
                    r2 = run_kani(j["harness"], slot, j.get("cap", 600), j.get("mem", 12),
                                  j.get("extra", ()), playback=True, logdir=logdir,
                                  crate_dir=crate_dir, cwd=j.get("cwd"), unwindset=j.get("unwindset"))
                    r["playback"] = r2.get("playback", [])
                r["status"], r["why"] = st, why
                results[i] = r
                log("  [%s] %-46s %6.1fs  %s" % (st.upper()[:4], j["harness"], r["wall_s"], why[:160]))
            finally:
                slots.q.put(slot)
                with cv:
                    budget["free"] += need
                    cv.notify_all()

    ths = [threading.Thread(target=worker) for _ in range(slots.n)]
    for t in ths:
        t.start()
    for t in ths:
        t.join()
    return results
