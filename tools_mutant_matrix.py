#!/usr/bin/env python3
"""Apply each seeded change to /repo, run the registered quick check of the property it
targets (plus extra checks given on the command line as ID=PROP,PROP), undo it, and record
the outcome in /verif/seeded/<id>/meta.json and /verif/seeded/README.md.
usage: tools_mutant_matrix.py [ids...]"""
import json, os, re, subprocess, sys, time
SEED = '/verif/seeded'
EXTRA = {  # further registered checks worth running for a change (it may break several properties)
    'C01-1': ['C16'], 'C01-2': ['C03'], 'C01-3': ['C08', 'C09'], 'C02-1': ['C06'], 'C02-2': ['C06'], 'C02-3': ['C16', 'C04'],
    'C03-1': [], 'C03-2': ['C06', 'C02'], 'C03-3': [], 'C05-1': ['C06'], 'C05-2': ['C16'], 'C05-3': ['C08'],
    'C08-1': ['C07'], 'C09-1': ['C06'], 'C16-1': ['C08'], 'C16-2': [], 'C16-3': ['C05'],
    'C17-1': ['C04'], 'C17-2': ['C04'], 'C17-3': ['C06', 'C02'],
}
REGISTERED = {'C01', 'C02', 'C03', 'C04', 'C05', 'C06', 'C07', 'C08', 'C09', 'C16'}
ids = sys.argv[1:] or sorted(os.listdir(SEED))
for sid in ids:
    d = os.path.join(SEED, sid)
    if not os.path.exists(os.path.join(d, 'patch.diff')):
        continue
    meta = json.load(open(os.path.join(d, 'meta.json')))
    prop = meta['breaks_property']
    props = [p for p in [prop] + EXTRA.get(sid, []) if p in REGISTERED]
    subprocess.run('git -C /repo checkout -q -- .', shell=True)
    r = subprocess.run('git -C /repo apply %s/patch.diff' % d, shell=True, stdout=subprocess.PIPE, stderr=subprocess.STDOUT, text=True)
    if r.returncode != 0:
        meta['matrix'] = {'error': 'patch does not apply to current HEAD: ' + r.stdout[-200:]}
        json.dump(meta, open(os.path.join(d, 'meta.json'), 'w'), indent=1)
        print(sid, 'PATCH-FAIL', flush=True)
        continue
    res = {}
    try:
        for p in props:
            t = time.time()
            r = subprocess.run('cd /verif && timeout 4000 python3 run.py quick %s' % p, shell=True, stdout=subprocess.PIPE, stderr=subprocess.STDOUT, text=True)
            out = r.stdout
            viol = [l for l in out.splitlines() if l.startswith('VIOLATION')]
            fails = [l.strip()[:260] for l in out.splitlines() if re.match(r'^\s+\[FAIL\]', l)]
            inco = [l.strip()[:200] for l in out.splitlines() if re.match(r'^\s+\[INCO\]', l)]
            res[p] = {'exit': r.returncode, 'violations': len(viol), 'failed_obligations': fails[:6], 'inconclusive': inco[:4],
                      'wall_s': round(time.time() - t), 'first_violation': viol[0] if viol else None}
            print(sid, p, 'exit=%d' % r.returncode, 'VIOLATION' if viol else ('inconclusive' if r.returncode == 2 else 'not caught'), fails[:1], flush=True)
            if viol:
                break
    finally:
        subprocess.run('git -C /repo checkout -q -- .', shell=True)
    meta['matrix'] = res
    meta['caught'] = any(v['violations'] for v in res.values())
    meta['what_i_ran'] = 'git -C /repo apply patch.diff; python3 /verif/run.py quick <property> for ' + ', '.join(props) + '; git -C /repo checkout -- .'
    json.dump(meta, open(os.path.join(d, 'meta.json'), 'w'), indent=1)
