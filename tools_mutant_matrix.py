#!/usr/bin/env python3
"""Run the registered quick checks against each seeded change and record the outcome in
/verif/seeded/<id>/meta.json.

Two modes:
  tools_mutant_matrix.py --inplace [ids...]
      exactly the documented procedure: git -C /repo apply <patch>; python3 /verif/run.py
      quick <property>; git -C /repo checkout -- .   (sequential, occupies /repo)
  tools_mutant_matrix.py --workers N [ids...]
      the same checks, N changes at a time: each worker owns a scratch git worktree of /repo
      (under /tmp/mx/wK/repo) and a copy of /verif (under /tmp/mx/wK/verif) whose harness and
      replay crates point at that worktree (VERIF_REPO); everything under /tmp/mx is removed
      at the end.  The checks are the same code; only the repository root differs.
A change counts as caught when a check prints a VIOLATION line (exit 1); exit 2
(inconclusive: the machinery refuses to pass but has no reproduced counterexample) is
recorded separately."""
import json, os, re, shutil, subprocess, sys, time, threading, queue
SEED = '/verif/seeded'
EXTRA = {  # further registered checks worth running for a change (it may break several properties)
    'C01-1': ['C16'], 'C01-2': ['C03'], 'C01-3': ['C08', 'C09'], 'C02-1': ['C06'], 'C02-2': ['C06'], 'C02-3': ['C16', 'C04'],
    'C03-1': [], 'C03-2': ['C02', 'C06'], 'C03-3': [], 'C05-1': ['C06'], 'C05-2': ['C16'], 'C05-3': ['C08'],
    'C08-1': ['C07'], 'C09-1': ['C06'], 'C16-1': ['C08'], 'C16-2': [], 'C16-3': ['C05'],
    'C17-1': ['C04'], 'C17-2': ['C04'], 'C17-3': ['C06', 'C02'],
    'C02-6': ['C04'], 'C04-6': ['C16'], 'C05-4': ['C01'], 'C05-6': ['C06'], 'C16-6': ['C06'],
    'C01-5': ['C04'], 'C01-6': ['C08'], 'C03-5': ['C06', 'C02'], 'C06-4': ['C02'], 'C06-5': ['C02'], 'C06-6': ['C02'], 'C08-4': ['C07'], 'C09-4': ['C08'],
    'C07-4': ['C08'], 'C10-4': ['C11'], 'C11-4': ['C14'], 'C01-7': ['C04'], 'C06-7': ['C02'], 'C16-7': ['C05'],
    'C10-2': ['C11'], 'C11-1': ['C10'], 'C11-2': ['C10'], 'C11-3': ['C14'], 'C14-1': ['C10'],
}
REGISTERED = {c['property_id'] for c in json.load(open('/verif/MANIFEST.json'))['checks']}


def sh(cmd, **kw):
    return subprocess.run(cmd, shell=True, stdout=subprocess.PIPE, stderr=subprocess.STDOUT, text=True, **kw)


def run_checks(sid, repo, verif, env):
    d = os.path.join(SEED, sid)
    meta = json.load(open(os.path.join(d, 'meta.json')))
    prop = meta['breaks_property']
    props = [p for p in [prop] + EXTRA.get(sid, []) if p in REGISTERED]
    sh('git -C %s checkout -q -- . && git -C %s clean -fdq' % (repo, repo))
    r = sh('git -C %s apply %s/patch.diff' % (repo, d))
    if r.returncode != 0:
        meta['matrix'] = {'error': 'patch does not apply to current HEAD: ' + r.stdout[-200:]}
        json.dump(meta, open(os.path.join(d, 'meta.json'), 'w'), indent=1)
        print(sid, 'PATCH-FAIL', flush=True)
        return
    res = {}
    try:
        for p in props:
            t = time.time()
            r = sh('cd %s && timeout 4000 python3 run.py quick %s' % (verif, p), env=env)
            out = r.stdout
            os.makedirs('/tmp/mx_logs', exist_ok=True)
            open('/tmp/mx_logs/%s_%s.log' % (sid, p), 'w').write(out)
            viol = [l for l in out.splitlines() if l.startswith('VIOLATION')]
            fails = [l.strip()[:300] for l in out.splitlines() if re.match(r'^\s+\[FAIL\]', l)]
            inco = [l.strip()[:200] for l in out.splitlines() if re.match(r'^\s+\[INCO\]', l)]
            reproduced = [l.strip()[:300] for l in out.splitlines() if 'REPRODUCED' in l and 'NOT-REPRODUCED' not in l]
            res[p] = {'exit': r.returncode, 'violations': len(viol), 'failed_obligations': fails[:8], 'inconclusive': inco[:4],
                      'reproduced': reproduced[:3], 'wall_s': round(time.time() - t), 'first_violation': viol[0] if viol else None}
            print(sid, p, 'exit=%d' % r.returncode, 'VIOLATION' if viol else ('inconclusive' if r.returncode == 2 else 'not caught'), fails[:2], flush=True)
            if viol:
                break
    finally:
        sh('git -C %s checkout -q -- . && git -C %s clean -fdq' % (repo, repo))
        if repo == '/repo':
            # an in-place run executes /verif/run.py itself, which rewrites /verif/evidence/<id>.json with
            # what it saw on the *changed* tree: put the committed evidence back
            sh('git -C /verif checkout -q -- evidence')
    if env.get('VERIF_ONLY'):
        # partial re-run (only the named obligations, e.g. ones added later): merged into the
        # existing matrix under its own key, the full-check entries stay as they were
        old = meta.get('matrix', {})
        for p, v in res.items():
            old['%s (only %s)' % (p, env['VERIF_ONLY'])] = v
        res = old
    meta['matrix'] = res
    meta['caught'] = any(v['violations'] for v in res.values())
    meta['caught_by'] = [p for p, v in res.items() if v['violations']]
    meta['refused_by'] = [p for p, v in res.items() if v['exit'] == 2 and not v['violations']]
    meta['what_i_ran'] = ('git apply patch.diff in %s; python3 run.py quick <property> for %s; git checkout -- .'
                          % ('/repo' if repo == '/repo' else 'a scratch worktree of /repo (same checks, VERIF_REPO pointing at it)', ', '.join(props)))
    json.dump(meta, open(os.path.join(d, 'meta.json'), 'w'), indent=1)


def main():
    args = sys.argv[1:]
    workers = 0
    if args and args[0] == '--inplace':
        args = args[1:]
    elif args and args[0] == '--workers':
        workers = int(args[1])
        args = args[2:]
    ids = args or sorted(x for x in os.listdir(SEED) if os.path.isdir(os.path.join(SEED, x)))
    ids = [i for i in ids if os.path.exists(os.path.join(SEED, i, 'patch.diff'))]
    if not workers:
        for sid in ids:
            run_checks(sid, '/repo', '/verif', dict(os.environ))
        return
    root = '/tmp/mx'
    q = queue.Queue()
    for i in ids:
        q.put(i)

    def work(k):
        w = os.path.join(root, 'w%d' % k)
        repo, verif = os.path.join(w, 'repo'), os.path.join(w, 'verif')
        sh('git -C /repo worktree remove --force %s 2>/dev/null; rm -rf %s; mkdir -p %s' % (repo, w, w))
        sh('git -C /repo worktree add --detach %s HEAD -q' % repo)
        sh('cp /repo/Cargo.lock %s/Cargo.lock' % repo)  # untracked in git, needed for offline builds
        sh('rsync -a --exclude .cache --exclude target --exclude .git --exclude replays --exclude evidence /verif/ %s/' % verif)
        os.makedirs(os.path.join(verif, 'evidence'), exist_ok=True)
        for f in ('kani/Cargo.toml', 'replay/Cargo.toml'):
            p = os.path.join(verif, f)
            txt = open(p).read().replace('"/repo/', '"%s/' % repo)
            open(p, 'w').write(txt)
        env = dict(os.environ, VERIF_REPO=repo, VERIF_JOBS=os.environ.get('MX_JOBS', '5'), VERIF_MEM_GB=os.environ.get('MX_MEM_GB', '20'))
        while True:
            try:
                sid = q.get_nowait()
            except queue.Empty:
                break
            try:
                run_checks(sid, repo, verif, env)
            except Exception as e:  # noqa
                print(sid, 'ERROR', e, flush=True)
        sh('git -C /repo worktree remove --force %s; rm -rf %s' % (repo, w))
    ts = [threading.Thread(target=work, args=(k,)) for k in range(workers)]
    for t in ts:
        t.start()
    for t in ts:
        t.join()
    sh('git -C /repo worktree prune; rm -rf %s' % root)


if __name__ == '__main__':
    main()
