//! C06 — textbook Shamir: structure of dealing / recovery against a reference model
//! written here.  Field *values* are abstracted to GF(65521) in the formula-level
//! harnesses (stated width reduction: the 129-bit arithmetic itself is C07, per
//! operation); t = 1 runs at full width with the C07 field laws.
use crate::stubs::*;
use core::convert::TryFrom;
use star_sharks::{Fp, Share, Sharks};

pub const Q: u64 = 65521;

/// abstraction of an element in the small-field model: ONE -> 1, otherwise limb 0
/// (all other elements in play are kept normalised as [v, 0, 0], v < Q)
fn al(f: &Fp) -> u64 {
    let l = fp_limbs(f);
    if l[0] == ONE_LIMBS[0] && l[1] == ONE_LIMBS[1] && l[2] == ONE_LIMBS[2] {
        1
    } else {
        l[0]
    }
}
fn mk(v: u64) -> Fp {
    // all operands are < Q < 2^16, so every intermediate fits 32 bits
    fp_from_limbs([((v as u32) % (Q as u32)) as u64, 0, 0])
}
pub fn sf_mul_assign<'r>(a: &mut Fp, b: &'r Fp)
where
    'r: 'r,
{
    *a = mk(((al(a) as u32) * (al(b) as u32)) as u64);
}
pub fn sf_add_assign<'r>(a: &mut Fp, b: &'r Fp)
where
    'r: 'r,
{
    *a = mk(al(a) + al(b));
}
pub fn sf_sub_assign<'r>(a: &mut Fp, b: &'r Fp)
where
    'r: 'r,
{
    *a = mk(al(a) + Q - al(b));
}
pub fn sf_invert(a: &Fp) -> subtle::CtOption<Fp> {
    let v = al(a);
    let x: u64 = kani::any();
    kani::assume(x < Q);
    kani::assume(v == 0 || ((x as u32) * (v as u32)) % (Q as u32) == 1);
    subtle::CtOption::new(mk(x), subtle::Choice::from((v != 0) as u8))
}
/// `Fp::is_valid` inside `Fp::random`: candidate assumed accepted *and* small
pub fn sf_is_valid_assume(f: &Fp) -> bool {
    let l = fp_limbs(f);
    unsafe {
        if RNG_WORDS >= 3 {
            RNG_WORDS = 0;
            kani::assume(l[1] == 0 && l[2] == 0 && l[0] < Q);
            if FP_RANDOM_CALLS < 8 {
                FP_RANDOM_LOG[FP_RANDOM_CALLS] = l;
            }
            FP_RANDOM_CALLS += 1;
            return true;
        }
    }
    limbs_lt_p(&l)
}
/// to_repr in the small model: normalises ONE
pub fn sf_to_repr(f: &Fp) -> star_sharks::FpRepr {
    fp_to_repr_spec(&mk(al(f)))
}

macro_rules! sf_stubs {
    ($(#[$m:meta])* fn $name:ident() $body:block) => {
        #[kani::proof]
        #[kani::stub(zeroize::optimization_barrier, barrier_noop)]
        #[kani::stub(star_sharks::Fp::is_valid, sf_is_valid_assume)]
        #[kani::stub(<star_sharks::Fp as ff::PrimeField>::from_repr, fp_from_repr_spec)]
        #[kani::stub(<star_sharks::Fp as ff::PrimeField>::to_repr, sf_to_repr)]
        #[kani::stub(<star_sharks::Fp as core::ops::MulAssign<&star_sharks::Fp>>::mul_assign, sf_mul_assign)]
        #[kani::stub(<star_sharks::Fp as core::ops::AddAssign<&star_sharks::Fp>>::add_assign, sf_add_assign)]
        #[kani::stub(<star_sharks::Fp as core::ops::SubAssign<&star_sharks::Fp>>::sub_assign, sf_sub_assign)]
        #[kani::stub(<star_sharks::Fp as ff::Field>::invert, sf_invert)]
        $(#[$m])*
        fn $name() $body
    };
}

/// arbitrary random source: every word is a fresh symbolic value, counted
pub struct AnyRng;
pub static mut ANY_WORDS: usize = 0x5EED_0000_0000_0a01;
impl rand_core::RngCore for AnyRng {
    fn next_u32(&mut self) -> u32 {
        self.next_u64() as u32
    }
    fn next_u64(&mut self) -> u64 {
        unsafe {
            ANY_WORDS += 1;
            RNG_WORDS += 1;
        }
        kani::any()
    }
    fn fill_bytes(&mut self, dest: &mut [u8]) {
        let mut i = 0;
        while i < dest.len() {
            dest[i] = kani::any();
            i += 1;
        }
    }
    fn try_fill_bytes(&mut self, dest: &mut [u8]) -> Result<(), rand_core::Error> {
        self.fill_bytes(dest);
        Ok(())
    }
}

fn small_elem_bytes(v: u64) -> [u8; 24] {
    let b = v.to_le_bytes();
    [b[0], b[1], b[2], b[3], b[4], b[5], b[6], b[7], 0, 0, 0, 0, 0, 0, 0, 0, 0, 0, 0, 0, 0, 0, 0, 0]
}

/// reference Horner value of a polynomial whose coefficients (highest degree first)
/// are `c[0..n]`, in GF(Q)
fn horner(c: &[u64], n: usize, x: u64) -> u64 {
    let q = Q as u32;
    let mut acc = 0u32;
    let mut i = 0;
    while i < n {
        acc = (acc * (x as u32) + (c[i] as u32)) % q;
        i += 1;
    }
    acc as u64
}

/// dealing: K secret elements (+ TAIL ignored bytes), threshold T: exactly K polynomials
/// of T coefficients, constant term = the secret element, every other coefficient one
/// fresh draw of the supplied source, in order; shares from the sequential iterator are
/// the points x = 1, 2, 3 on those polynomials.
fn dealer<const K: usize, const TAIL: usize, const T: u32>() {
    let mut secret = [0u8; 72];
    let mut sv = [0u64; 3];
    let mut k = 0;
    while k < K {
        let v: u64 = kani::any();
        kani::assume(v < Q);
        sv[k] = v;
        let e = small_elem_bytes(v);
        let mut i = 0;
        while i < 24 {
            secret[24 * k + i] = e[i];
            i += 1;
        }
        k += 1;
    }
    let mut i = 0;
    while i < TAIL {
        secret[24 * K + i] = kani::any();
        i += 1;
    }
    ro_reset();
    unsafe {
        ANY_WORDS = 0;
    }
    let mut rng = AnyRng;
    let sh = Sharks(T);
    let r = sh.dealer_rng(&secret[..24 * K + TAIL], &mut rng);
    assert!(r.is_ok(), "in-range secret is accepted");
    let mut ev = r.unwrap();
    let draws = unsafe { FP_RANDOM_CALLS };
    assert!(draws == K * (T as usize - 1), "exactly t-1 draws per secret element");
    assert!(unsafe { ANY_WORDS } == 3 * draws, "three words of the supplied source per coefficient");
    let mut x = 1u64;
    while x <= 3 {
        let s = ev.next().unwrap();
        assert!(al(&s.x) == x, "sequential points 1, 2, 3");
        assert!(s.y.len() == K, "one value per secret element");
        let mut k = 0;
        while k < K {
            let mut c = [0u64; 3];
            let mut j = 0;
            while j + 1 < T as usize {
                c[j] = unsafe { FP_RANDOM_LOG[k * (T as usize - 1) + j][0] };
                j += 1;
            }
            c[T as usize - 1] = sv[k];
            assert!(al(&s.y[k]) == horner(&c, T as usize, x), "share value is the polynomial at x");
            k += 1;
        }
        core::mem::forget(s);
        x += 1;
    }
    kani::cover!(true, "reached");
    core::mem::forget(ev);
}
sf_stubs! { #[kani::unwind(6)] fn c06_dealer_k1_t1() { dealer::<1, 0, 1>() } }
sf_stubs! { #[kani::unwind(6)] fn c06_dealer_k1_t2() { dealer::<1, 0, 2>() } }
sf_stubs! { #[kani::unwind(6)] fn c06_dealer_k2_t3() { dealer::<2, 0, 3>() } }
sf_stubs! { #[kani::unwind(6)] fn c06_dealer_k1_tail23_t2() { dealer::<1, 23, 2>() } }
sf_stubs! { #[kani::unwind(6)] fn c06_dealer_k0_tail1_t2() { dealer::<0, 1, 2>() } }

/// out-of-range secret element: refused, never altered
fn dealer_range<const T: u32>() {
    let b: [u8; 48] = kani::any();
    ro_reset();
    unsafe {
        ANY_WORDS = 0;
    }
    let mut rng = AnyRng;
    let sh = Sharks(T);
    let r = sh.dealer_rng(&b[..], &mut rng);
    let ok0 = fp_from_repr_spec(star_sharks::FpRepr(first24(&b))).is_some().unwrap_u8() == 1;
    let ok1 = fp_from_repr_spec(star_sharks::FpRepr(last24(&b))).is_some().unwrap_u8() == 1;
    assert!(r.is_ok() == (ok0 && ok1), "refused iff some element is not below the modulus");
    kani::cover!(r.is_ok(), "accepted");
    kani::cover!(r.is_err(), "refused");
    core::mem::forget(r);
}
fn first24(b: &[u8; 48]) -> [u8; 24] {
    let mut o = [0u8; 24];
    let mut i = 0;
    while i < 24 {
        o[i] = b[i];
        i += 1;
    }
    o
}
fn last24(b: &[u8; 48]) -> [u8; 24] {
    let mut o = [0u8; 24];
    let mut i = 0;
    while i < 24 {
        o[i] = b[24 + i];
        i += 1;
    }
    o
}
#[kani::proof]
#[kani::unwind(6)]
#[kani::stub(zeroize::optimization_barrier, barrier_noop)]
#[kani::stub(star_sharks::Fp::is_valid, fp_is_valid_assume)]
#[kani::stub(<star_sharks::Fp as ff::PrimeField>::from_repr, fp_from_repr_spec)]
fn c06_dealer_range_t1() {
    dealer_range::<1>()
}

/// random evaluation point: the share point is a draw of the supplied source and never 0
/// (one resample allowed: the second candidate is assumed non-zero, deeper retry chains
/// are outside the bound)
fn gen_nonzero() {
    let v: u64 = kani::any();
    kani::assume(v < Q);
    let secret = small_elem_bytes(v);
    ro_reset();
    unsafe {
        ANY_WORDS = 0;
    }
    let mut rng = AnyRng;
    let sh = Sharks(2);
    let ev = sh.dealer_rng(&secret[..], &mut rng).unwrap();
    unsafe {
        FP_RANDOM_CALLS = 0;
    }
    let s = ev.gen(&mut rng);
    let n = unsafe { FP_RANDOM_CALLS };
    // at most two candidates inside the bound
    kani::assume(n <= 2);
    assert!(al(&s.x) != 0, "share point is never zero");
    let last = unsafe { FP_RANDOM_LOG[n - 1] };
    assert!(fp_limbs(&s.x)[0] == last[0], "share point is the (last) draw");
    kani::cover!(n == 2, "resampled once");
    kani::cover!(n == 1, "accepted at once");
    core::mem::forget(s);
    core::mem::forget(ev);
}
sf_stubs! { #[kani::unwind(4)] fn c06_gen_nonzero() { gen_nonzero() } }

/// reference Lagrange interpolation at 0 over GF(Q) for up to 3 points
fn inv_mod(a: u64) -> u64 {
    // the inverse by its defining equation (a != 0 mod Q)
    let x: u32 = kani::any();
    kani::assume(x < Q as u32);
    kani::assume(((a as u32 % Q as u32) * x) % (Q as u32) == 1);
    x as u64
}
fn lagrange0(xs: &[u64], ys: &[u64], n: usize) -> u64 {
    let q = Q as u32;
    let mut acc = 0u32;
    let mut i = 0;
    while i < n {
        let mut f = 1u32;
        let mut j = 0;
        while j < n {
            if j != i {
                let d = ((xs[j] + Q - xs[i]) % Q) as u32;
                f = (f * (xs[j] as u32)) % q;
                f = (f * (inv_mod(d as u64) as u32)) % q;
            }
            j += 1;
        }
        acc = (acc + (f * (ys[i] as u32)) % q) % q;
        i += 1;
    }
    acc as u64
}

/// recovery over three shares whose points follow a *concrete* pattern (X1, X2, X3 in
/// {1,2,3}: every equality/ordering pattern of three points; 0 = share absent) with
/// symbolic values, threshold T: fewer than T distinct points are refused; otherwise the
/// result is the reference interpolation of the first T shares with distinct points, in
/// input order (so duplicates and surplus shares do not matter).
fn recover_model<const X1: u64, const X2: u64, const X3: u64, const T: u32>() {
    ro_reset();
    let xin = [X1, X2, X3];
    let mut xs = [0u64; 3];
    let mut ys = [0u64; 3];
    let mut n = 0usize;
    let mut shares: Vec<Share> = Vec::with_capacity(3);
    let mut i = 0;
    while i < 3 {
        if xin[i] != 0 {
            let y: u64 = kani::any();
            kani::assume(y < Q);
            xs[n] = xin[i];
            ys[n] = y;
            n += 1;
            shares.push(Share { x: mk(xin[i]), y: vec![mk(y)] });
        }
        i += 1;
    }
    let sh = Sharks(T);
    let r = sh.recover(&shares);
    // reference: first T distinct points in input order
    let mut dx = [0u64; 3];
    let mut dy = [0u64; 3];
    let mut nd = 0usize;
    let mut i = 0;
    while i < n {
        let mut dup = false;
        let mut j = 0;
        while j < nd {
            if dx[j] == xs[i] {
                dup = true;
            }
            j += 1;
        }
        if !dup {
            dx[nd] = xs[i];
            dy[nd] = ys[i];
            nd += 1;
        }
        i += 1;
    }
    if nd < T as usize || T == 0 {
        assert!(r.is_err(), "fewer than threshold distinct shares are refused");
    } else {
        assert!(r.is_ok(), "threshold-many distinct shares recover");
        let out = r.as_ref().unwrap();
        assert!(out.len() == 24);
        let want = lagrange0(&dx, &dy, T as usize);
        let got = u64::from_le_bytes([out[0], out[1], out[2], out[3], out[4], out[5], out[6], out[7]]);
        assert!(got == want, "value of the Lagrange interpolation at 0 over the first t distinct shares");
    }
    kani::cover!(true, "reached");
    core::mem::forget(r);
    core::mem::forget(shares);
}
macro_rules! rec {
    ($($name:ident = ($a:expr, $b:expr, $c:expr, $t:expr)),* $(,)?) => {
        $( sf_stubs! { #[kani::unwind(5)] fn $name() { recover_model::<$a, $b, $c, $t>() } } )*
    };
}
rec!(
  c06_recover_111_t1 = (1, 1, 1, 1),
  c06_recover_112_t1 = (1, 1, 2, 1),
  c06_recover_113_t1 = (1, 1, 3, 1),
  c06_recover_121_t1 = (1, 2, 1, 1),
  c06_recover_122_t1 = (1, 2, 2, 1),
  c06_recover_123_t1 = (1, 2, 3, 1),
  c06_recover_131_t1 = (1, 3, 1, 1),
  c06_recover_132_t1 = (1, 3, 2, 1),
  c06_recover_133_t1 = (1, 3, 3, 1),
  c06_recover_211_t1 = (2, 1, 1, 1),
  c06_recover_212_t1 = (2, 1, 2, 1),
  c06_recover_213_t1 = (2, 1, 3, 1),
  c06_recover_221_t1 = (2, 2, 1, 1),
  c06_recover_222_t1 = (2, 2, 2, 1),
  c06_recover_223_t1 = (2, 2, 3, 1),
  c06_recover_231_t1 = (2, 3, 1, 1),
  c06_recover_232_t1 = (2, 3, 2, 1),
  c06_recover_233_t1 = (2, 3, 3, 1),
  c06_recover_311_t1 = (3, 1, 1, 1),
  c06_recover_312_t1 = (3, 1, 2, 1),
  c06_recover_313_t1 = (3, 1, 3, 1),
  c06_recover_321_t1 = (3, 2, 1, 1),
  c06_recover_322_t1 = (3, 2, 2, 1),
  c06_recover_323_t1 = (3, 2, 3, 1),
  c06_recover_331_t1 = (3, 3, 1, 1),
  c06_recover_332_t1 = (3, 3, 2, 1),
  c06_recover_333_t1 = (3, 3, 3, 1),
  c06_recover_111_t2 = (1, 1, 1, 2),
  c06_recover_112_t2 = (1, 1, 2, 2),
  c06_recover_113_t2 = (1, 1, 3, 2),
  c06_recover_121_t2 = (1, 2, 1, 2),
  c06_recover_122_t2 = (1, 2, 2, 2),
  c06_recover_123_t2 = (1, 2, 3, 2),
  c06_recover_131_t2 = (1, 3, 1, 2),
  c06_recover_132_t2 = (1, 3, 2, 2),
  c06_recover_133_t2 = (1, 3, 3, 2),
  c06_recover_211_t2 = (2, 1, 1, 2),
  c06_recover_212_t2 = (2, 1, 2, 2),
  c06_recover_213_t2 = (2, 1, 3, 2),
  c06_recover_221_t2 = (2, 2, 1, 2),
  c06_recover_222_t2 = (2, 2, 2, 2),
  c06_recover_223_t2 = (2, 2, 3, 2),
  c06_recover_231_t2 = (2, 3, 1, 2),
  c06_recover_232_t2 = (2, 3, 2, 2),
  c06_recover_233_t2 = (2, 3, 3, 2),
  c06_recover_311_t2 = (3, 1, 1, 2),
  c06_recover_312_t2 = (3, 1, 2, 2),
  c06_recover_313_t2 = (3, 1, 3, 2),
  c06_recover_321_t2 = (3, 2, 1, 2),
  c06_recover_322_t2 = (3, 2, 2, 2),
  c06_recover_323_t2 = (3, 2, 3, 2),
  c06_recover_331_t2 = (3, 3, 1, 2),
  c06_recover_332_t2 = (3, 3, 2, 2),
  c06_recover_333_t2 = (3, 3, 3, 2),
  c06_recover_111_t3 = (1, 1, 1, 3),
  c06_recover_112_t3 = (1, 1, 2, 3),
  c06_recover_113_t3 = (1, 1, 3, 3),
  c06_recover_121_t3 = (1, 2, 1, 3),
  c06_recover_122_t3 = (1, 2, 2, 3),
  c06_recover_123_t3 = (1, 2, 3, 3),
  c06_recover_131_t3 = (1, 3, 1, 3),
  c06_recover_132_t3 = (1, 3, 2, 3),
  c06_recover_133_t3 = (1, 3, 3, 3),
  c06_recover_211_t3 = (2, 1, 1, 3),
  c06_recover_212_t3 = (2, 1, 2, 3),
  c06_recover_213_t3 = (2, 1, 3, 3),
  c06_recover_221_t3 = (2, 2, 1, 3),
  c06_recover_222_t3 = (2, 2, 2, 3),
  c06_recover_223_t3 = (2, 2, 3, 3),
  c06_recover_231_t3 = (2, 3, 1, 3),
  c06_recover_232_t3 = (2, 3, 2, 3),
  c06_recover_233_t3 = (2, 3, 3, 3),
  c06_recover_311_t3 = (3, 1, 1, 3),
  c06_recover_312_t3 = (3, 1, 2, 3),
  c06_recover_313_t3 = (3, 1, 3, 3),
  c06_recover_321_t3 = (3, 2, 1, 3),
  c06_recover_322_t3 = (3, 2, 2, 3),
  c06_recover_323_t3 = (3, 2, 3, 3),
  c06_recover_331_t3 = (3, 3, 1, 3),
  c06_recover_332_t3 = (3, 3, 2, 3),
  c06_recover_333_t3 = (3, 3, 3, 3),
  c06_recover_120_t2 = (1, 2, 0, 2),
  c06_recover_100_t1 = (1, 0, 0, 1),
  c06_recover_100_t2 = (1, 0, 0, 2),
  c06_recover_000_t1 = (0, 0, 0, 1),
  c06_recover_120_t0 = (1, 2, 0, 0),
  c06_recover_210_t2 = (2, 1, 0, 2)
);

/// shares of unequal length are refused
fn recover_unequal() {
    let a = Share { x: mk(1), y: vec![mk(kani::any::<u16>() as u64)] };
    let b = Share { x: mk(2), y: vec![] };
    let first_long: bool = kani::any();
    let v = if first_long { vec![a, b] } else { vec![b, a] };
    let t: u32 = kani::any();
    kani::assume(t <= 2);
    let sh = Sharks(t);
    let r = sh.recover(&v);
    assert!(r.is_err(), "shares of unequal length are refused");
    kani::cover!(true, "reached");
    core::mem::forget(r);
    core::mem::forget(v);
}
sf_stubs! { #[kani::unwind(5)] fn c06_recover_unequal() { recover_unequal() } }

// ---- cost probes (temporary) ----
sf_stubs! { #[kani::unwind(5)] fn probe_btree() {
    let mut keys: std::collections::BTreeSet<Vec<u8>> = std::collections::BTreeSet::new();
    let a = keys.insert(vec![1u8; 24]);
    let b = keys.insert(vec![2u8; 24]);
    let c = keys.insert(vec![1u8; 24]);
    assert!(a && b && !c && keys.len() == 2);
    core::mem::forget(keys);
} }
sf_stubs! { #[kani::unwind(5)] fn probe_interp() {
    ro_reset();
    let y1: u64 = kani::any();
    let y2: u64 = kani::any();
    kani::assume(y1 < Q && y2 < Q);
    let v = [Share { x: mk(1), y: vec![mk(y1)] }, Share { x: mk(2), y: vec![mk(y2)] }];
    let r = star_sharks::interpolate(&v);
    assert!(r.is_ok());
    core::mem::forget(r);
    core::mem::forget(v);
} }
sf_stubs! { #[kani::unwind(5)] fn probe_recover_concrete() {
    ro_reset();
    let v = vec![Share { x: mk(1), y: vec![mk(5)] }, Share { x: mk(2), y: vec![mk(7)] }];
    let sh = Sharks(2);
    let r = sh.recover(&v);
    assert!(r.is_ok());
    core::mem::forget(r);
    core::mem::forget(v);
} }
#[kani::proof]
#[kani::unwind(5)]
#[kani::stub(zeroize::optimization_barrier, barrier_noop)]
#[kani::stub(star_sharks::Fp::is_valid, sf_is_valid_assume)]
#[kani::stub(<star_sharks::Fp as ff::PrimeField>::from_repr, fp_from_repr_spec)]
#[kani::stub(<star_sharks::Fp as ff::PrimeField>::to_repr, sf_to_repr)]
#[kani::stub(<star_sharks::Fp as core::ops::MulAssign<&star_sharks::Fp>>::mul_assign, sf_mul_assign)]
#[kani::stub(<star_sharks::Fp as core::ops::AddAssign<&star_sharks::Fp>>::add_assign, sf_add_assign)]
#[kani::stub(<star_sharks::Fp as core::ops::SubAssign<&star_sharks::Fp>>::sub_assign, sf_sub_assign)]
#[kani::stub(<star_sharks::Fp as ff::Field>::invert, sf_invert)]
#[kani::stub(star_sharks::Sharks::recover, sharks_recover_ref)]
fn probe_recover_stubbed() {
    ro_reset();
    let y1: u64 = kani::any();
    let y2: u64 = kani::any();
    kani::assume(y1 < Q && y2 < Q);
    let v = vec![Share { x: mk(1), y: vec![mk(y1)] }, Share { x: mk(2), y: vec![mk(y2)] }];
    let sh = Sharks(2);
    let r = sh.recover(&v);
    assert!(r.is_ok());
    core::mem::forget(r);
    core::mem::forget(v);
}
