//! C06 — textbook Shamir: structure of dealing / recovery against a reference model
//! written here.  Field *values* are abstracted to GF(13) (the formulas are rational functions of degree <= 3 per variable with coefficients 0/+-1, so agreement on all of GF(13)^n is agreement as formal expressions) in the formula-level
//! harnesses (stated width reduction: the 129-bit arithmetic itself is C07, per
//! operation); t = 1 runs at full width with the C07 field laws.
use crate::stubs::*;
use core::convert::TryFrom;
use star_sharks::{Fp, Share, Sharks};

pub const Q: u64 = 13;

/// abstraction of an element in the small-field model: ONE -> 1, otherwise limb 0
/// (all other elements in play are kept normalised as [v, 0, 0], v < Q)
fn al(f: &Fp) -> u64 {
    let l = fp_limbs(f);
    if l[0] == ONE_LIMBS[0] && l[1] == ONE_LIMBS[1] && l[2] == ONE_LIMBS[2] {
        1
    } else {
        l[0]
    }
}
fn mk(v: u64) -> Fp {
    // all operands are < Q = 13, so every intermediate fits 32 bits
    fp_from_limbs([((v as u32) % (Q as u32)) as u64, 0, 0])
}
pub fn sf_mul_assign<'r>(a: &mut Fp, b: &'r Fp)
where
    'r: 'r,
{
    *a = mk(((al(a) as u32) * (al(b) as u32)) as u64);
}
pub fn sf_add_assign<'r>(a: &mut Fp, b: &'r Fp)
where
    'r: 'r,
{
    *a = mk(al(a) + al(b));
}
pub fn sf_sub_assign<'r>(a: &mut Fp, b: &'r Fp)
where
    'r: 'r,
{
    *a = mk(al(a) + Q - al(b));
}
/// a^(Q-2) mod Q by 4 square-and-multiply steps (deterministic, so the stub and the
/// reference model below denote the same function)
pub fn pow_inv(a: u32) -> u32 {
    let q = Q as u32;
    let mut r = 1u32;
    let mut b = a % q;
    let e: u32 = Q as u32 - 2;
    let mut i = 0;
    while i < 4 {
        if (e >> i) & 1 == 1 {
            r = (r * b) % q;
        }
        b = (b * b) % q;
        i += 1;
    }
    r
}
pub fn sf_invert(a: &Fp) -> subtle::CtOption<Fp> {
    let v = al(a) as u32;
    subtle::CtOption::new(mk(pow_inv(v) as u64), subtle::Choice::from((v != 0) as u8))
}
/// `Fp::is_valid` inside `Fp::random`: candidate assumed accepted *and* small
pub fn sf_is_valid_assume(f: &Fp) -> bool {
    let l = fp_limbs(f);
    unsafe {
        if RNG_WORDS >= 3 {
            RNG_WORDS = 0;
            kani::assume(l[1] == 0 && l[2] == 0 && l[0] < Q);
            if FP_RANDOM_CALLS < 8 {
                FP_RANDOM_LOG[FP_RANDOM_CALLS] = l;
            }
            FP_RANDOM_CALLS += 1;
            return true;
        }
    }
    limbs_lt_p(&l)
}
/// to_repr in the small model: normalises ONE
pub fn sf_to_repr(f: &Fp) -> star_sharks::FpRepr {
    fp_to_repr_spec(&mk(al(f)))
}

macro_rules! sf_stubs {
    ($(#[$m:meta])* fn $name:ident() $body:block) => {
        #[kani::proof]
        #[kani::stub(zeroize::optimization_barrier, barrier_noop)]
        #[kani::stub(star_sharks::Fp::is_valid, sf_is_valid_assume)]
        #[kani::stub(<star_sharks::Fp as ff::PrimeField>::from_repr, fp_from_repr_spec)]
        #[kani::stub(<star_sharks::Fp as ff::PrimeField>::to_repr, sf_to_repr)]
        #[kani::stub(<star_sharks::Fp as core::ops::MulAssign<&star_sharks::Fp>>::mul_assign, sf_mul_assign)]
        #[kani::stub(<star_sharks::Fp as core::ops::AddAssign<&star_sharks::Fp>>::add_assign, sf_add_assign)]
        #[kani::stub(<star_sharks::Fp as core::ops::SubAssign<&star_sharks::Fp>>::sub_assign, sf_sub_assign)]
        #[kani::stub(<star_sharks::Fp as ff::Field>::invert, sf_invert)]
        $(#[$m])*
        fn $name() $body
    };
}

/// arbitrary random source: every word is a fresh symbolic value, counted
pub struct AnyRng;
pub static mut ANY_WORDS: usize = 0x5EED_0000_0000_0a01;
impl rand_core::RngCore for AnyRng {
    fn next_u32(&mut self) -> u32 {
        self.next_u64() as u32
    }
    fn next_u64(&mut self) -> u64 {
        unsafe {
            ANY_WORDS += 1;
            RNG_WORDS += 1;
        }
        kani::any()
    }
    fn fill_bytes(&mut self, dest: &mut [u8]) {
        let mut i = 0;
        while i < dest.len() {
            dest[i] = kani::any();
            i += 1;
        }
    }
    fn try_fill_bytes(&mut self, dest: &mut [u8]) -> Result<(), rand_core::Error> {
        self.fill_bytes(dest);
        Ok(())
    }
}

fn small_elem_bytes(v: u64) -> [u8; 24] {
    let b = v.to_le_bytes();
    [b[0], b[1], b[2], b[3], b[4], b[5], b[6], b[7], 0, 0, 0, 0, 0, 0, 0, 0, 0, 0, 0, 0, 0, 0, 0, 0]
}

/// reference Horner value of a polynomial whose coefficients (highest degree first)
/// are `c[0..n]`, in GF(Q)
fn horner(c: &[u64], n: usize, x: u64) -> u64 {
    let q = Q as u32;
    let mut acc = 0u32;
    let mut i = 0;
    while i < n {
        acc = (acc * (x as u32) + (c[i] as u32)) % q;
        i += 1;
    }
    acc as u64
}

/// dealing: one or two secret elements (+ ignored tail bytes), threshold t: exactly k
/// polynomials of t coefficients, constant term = the secret element, every other
/// coefficient one fresh draw of the supplied source, in order; the sequential iterator
/// yields the points x = 1, 2, 3 on those polynomials (reference Horner in GF(Q)).
fn deal1(t: u32, tail: usize) -> (star_sharks::Evaluator, u32) {
    let v: u64 = kani::any();
    kani::assume(v < Q);
    let e = small_elem_bytes(v);
    let mut secret = [0u8; 48];
    secret[..24].copy_from_slice(&e);
    let tl: [u8; 24] = kani::any();
    secret[24..].copy_from_slice(&tl);
    ro_reset();
    unsafe {
        ANY_WORDS = 0;
    }
    let mut rng = AnyRng;
    let sh = Sharks(t);
    let r = sh.dealer_rng(&secret[..24 + tail], &mut rng);
    assert!(r.is_ok(), "in-range secret is accepted");
    let draws = unsafe { FP_RANDOM_CALLS };
    assert!(draws == t as usize - 1, "exactly t-1 draws per secret element");
    assert!(unsafe { ANY_WORDS } == 3 * draws, "three words of the supplied source per coefficient");
    (r.unwrap(), v as u32)
}
fn want1(t: u32, x: u32, v: u32) -> u64 {
    let q = Q as u32;
    let d0 = unsafe { FP_RANDOM_LOG[0][0] } as u32;
    let d1 = unsafe { FP_RANDOM_LOG[1][0] } as u32;
    (if t == 1 {
        v
    } else if t == 2 {
        (d0 * x + v) % q
    } else {
        ((((d0 * x) % q + d1) % q) * x + v) % q
    }) as u64
}
fn dealer1(t: u32, tail: usize) {
    let (mut ev, v) = deal1(t, tail);
    let s1 = ev.next().unwrap();
    let s2 = ev.next().unwrap();
    let s3 = ev.next().unwrap();
    assert!(al(&s1.x) == 1 && al(&s2.x) == 2 && al(&s3.x) == 3, "sequential points 1, 2, 3");
    assert!(s1.y.len() == 1 && s2.y.len() == 1 && s3.y.len() == 1, "one value per secret element");
    assert!(al(&s1.y[0]) == want1(t, 1, v), "share value is the polynomial at x = 1");
    assert!(al(&s2.y[0]) == want1(t, 2, v), "share value is the polynomial at x = 2");
    assert!(al(&s3.y[0]) == want1(t, 3, v), "share value is the polynomial at x = 3");
    kani::cover!(true, "reached");
    core::mem::forget((s1, s2, s3, ev));
}
sf_stubs! { #[kani::unwind(5)] fn c06_dealer_k1_t1() { dealer1(1, 0) } }
sf_stubs! { #[kani::unwind(5)] fn c06_dealer_k1_t2() { dealer1(2, 0) } }
sf_stubs! { #[kani::unwind(5)] fn c06_dealer_k1_t3() { dealer1(3, 0) } }
sf_stubs! { #[kani::unwind(5)] fn c06_dealer_k1_tail23_t2() { dealer1(2, 23) } }

/// two secret elements, threshold 2: two independent polynomials, draws in order
fn dealer2() {
    let v0: u64 = kani::any();
    let v1: u64 = kani::any();
    kani::assume(v0 < Q && v1 < Q);
    let mut secret = [0u8; 48];
    secret[..24].copy_from_slice(&small_elem_bytes(v0));
    secret[24..].copy_from_slice(&small_elem_bytes(v1));
    ro_reset();
    unsafe {
        ANY_WORDS = 0;
    }
    let mut rng = AnyRng;
    let sh = Sharks(2);
    let r = sh.dealer_rng(&secret[..], &mut rng);
    assert!(r.is_ok(), "in-range secret is accepted");
    assert!(unsafe { FP_RANDOM_CALLS } == 2 && unsafe { ANY_WORDS } == 6, "one draw per element");
    let mut ev = r.unwrap();
    let s1 = ev.next().unwrap();
    let s2 = ev.next().unwrap();
    let q = Q as u32;
    let d0 = unsafe { FP_RANDOM_LOG[0][0] } as u32;
    let d1 = unsafe { FP_RANDOM_LOG[1][0] } as u32;
    assert!(s1.y.len() == 2 && s2.y.len() == 2);
    assert!(al(&s1.y[0]) == ((d0 + v0 as u32) % q) as u64 && al(&s1.y[1]) == ((d1 + v1 as u32) % q) as u64);
    assert!(al(&s2.y[0]) == ((d0 * 2 + v0 as u32) % q) as u64 && al(&s2.y[1]) == ((d1 * 2 + v1 as u32) % q) as u64);
    kani::cover!(true, "reached");
    core::mem::forget((s1, s2, ev));
}
sf_stubs! { #[kani::unwind(5)] fn c06_dealer_k2_t2() { dealer2() } }

/// a secret shorter than one element yields an evaluator with no polynomial (shares carry
/// no values) and consumes no randomness
fn dealer0() {
    let b: [u8; 23] = kani::any();
    ro_reset();
    unsafe {
        ANY_WORDS = 0;
    }
    let mut rng = AnyRng;
    let sh = Sharks(2);
    let r = sh.dealer_rng(&b[..], &mut rng);
    assert!(r.is_ok());
    assert!(unsafe { ANY_WORDS } == 0);
    let mut ev = r.unwrap();
    let s = ev.next().unwrap();
    assert!(s.y.len() == 0 && al(&s.x) == 1);
    kani::cover!(true, "reached");
    core::mem::forget((s, ev));
}
sf_stubs! { #[kani::unwind(5)] fn c06_dealer_k0_tail23() { dealer0() } }

/// out-of-range secret element: refused, never altered
fn dealer_range<const T: u32>() {
    let b: [u8; 48] = kani::any();
    ro_reset();
    unsafe {
        ANY_WORDS = 0;
    }
    let mut rng = AnyRng;
    let sh = Sharks(T);
    let r = sh.dealer_rng(&b[..], &mut rng);
    let ok0 = fp_from_repr_spec(star_sharks::FpRepr(first24(&b))).is_some().unwrap_u8() == 1;
    let ok1 = fp_from_repr_spec(star_sharks::FpRepr(last24(&b))).is_some().unwrap_u8() == 1;
    assert!(r.is_ok() == (ok0 && ok1), "refused iff some element is not below the modulus");
    kani::cover!(r.is_ok(), "accepted");
    kani::cover!(r.is_err(), "refused");
    core::mem::forget(r);
}
fn first24(b: &[u8; 48]) -> [u8; 24] {
    let mut o = [0u8; 24];
    let mut i = 0;
    while i < 24 {
        o[i] = b[i];
        i += 1;
    }
    o
}
fn last24(b: &[u8; 48]) -> [u8; 24] {
    let mut o = [0u8; 24];
    let mut i = 0;
    while i < 24 {
        o[i] = b[24 + i];
        i += 1;
    }
    o
}
#[kani::proof]
#[kani::unwind(6)]
#[kani::stub(zeroize::optimization_barrier, barrier_noop)]
#[kani::stub(star_sharks::Fp::is_valid, fp_is_valid_assume)]
#[kani::stub(<star_sharks::Fp as ff::PrimeField>::from_repr, fp_from_repr_spec)]
fn c06_dealer_range_t1() {
    dealer_range::<1>()
}

/// random evaluation point: the share point is a draw of the supplied source and never 0
/// (two resamples inside the bound: the third candidate is assumed non-zero; longer retry
/// chains are outside the bound)
pub struct RetryRng;
impl rand_core::RngCore for RetryRng {
    fn next_u32(&mut self) -> u32 {
        self.next_u64() as u32
    }
    fn next_u64(&mut self) -> u64 {
        let v: u64 = kani::any();
        unsafe {
            // words 6.. belong to the third candidate: make it non-zero (two resamples
            // are inside the bound)
            if ANY_WORDS == 6 {
                kani::assume(v != 0 && v < Q);
            }
            ANY_WORDS += 1;
            RNG_WORDS += 1;
        }
        v
    }
    fn fill_bytes(&mut self, _dest: &mut [u8]) {}
    fn try_fill_bytes(&mut self, _dest: &mut [u8]) -> Result<(), rand_core::Error> {
        Ok(())
    }
}
fn gen_nonzero() {
    let v: u64 = kani::any();
    let c: u64 = kani::any();
    kani::assume(v < Q && c < Q);
    // the evaluator for f(x) = c*x + v, built through the public constructor
    let ev = star_sharks::get_evaluator(vec![vec![mk(c), mk(v)]]);
    ro_reset();
    unsafe {
        ANY_WORDS = 0;
    }
    let mut rng = RetryRng;
    let s = ev.gen(&mut rng);
    let n = unsafe { FP_RANDOM_CALLS };
    assert!(n >= 1 && n <= 3);
    assert!(al(&s.x) != 0, "share point is never zero");
    let last = unsafe { FP_RANDOM_LOG[n - 1] };
    assert!(fp_limbs(&s.x)[0] == last[0], "share point is the accepted draw");
    let q = Q as u32;
    assert!(al(&s.y[0]) == (((c as u32) * (al(&s.x) as u32)) % q + v as u32) as u64 % Q, "value is the polynomial at the point");
    kani::cover!(n == 3, "resampled twice");
    kani::cover!(n == 2, "resampled once");
    kani::cover!(n == 1, "accepted at once");
    core::mem::forget((s, ev));
}
sf_stubs! { #[kani::unwind(5)] fn c06_gen_nonzero() { gen_nonzero() } }

/// reference Lagrange interpolation at 0 over GF(Q) for up to 3 points
fn inv_mod(a: u64) -> u64 {
    pow_inv(a as u32) as u64
}
/// textbook Lagrange value at 0: sum_i y_i * prod_{j != i} x_j / (x_j - x_i) over GF(Q);
/// evaluation order mirrors the usual left fold so that the solver can match terms
fn lagrange0(xs: &[u64], ys: &[u64], n: usize) -> u64 {
    let q = Q as u32;
    let mut acc = 0u32;
    let mut i = 0;
    while i < n {
        let mut f = 1u32;
        let mut j = 0;
        while j < n {
            if xs[j] != xs[i] {
                let d = ((xs[j] + Q - xs[i]) as u32) % q;
                let frac = ((xs[j] as u32) * pow_inv(d)) % q;
                f = (f * frac) % q;
            }
            j += 1;
        }
        let term = (f * (ys[i] as u32)) % q;
        acc = (acc + term) % q;
        i += 1;
    }
    acc as u64
}

/// `interpolate` on t shares with symbolic pairwise-distinct points and symbolic values
/// equals the reference Lagrange value at 0 (GF(Q)); with points on a symbolic polynomial
/// it returns the constant term.
fn interp2() {
    ro_reset();
    let x1: u64 = kani::any();
    let x2: u64 = kani::any();
    let y1: u64 = kani::any();
    let y2: u64 = kani::any();
    kani::assume(x1 < Q && x2 < Q && y1 < Q && y2 < Q && x1 != x2);
    let v = [Share { x: mk(x1), y: vec![mk(y1)] }, Share { x: mk(x2), y: vec![mk(y2)] }];
    let r = star_sharks::interpolate(&v);
    assert!(r.is_ok());
    let out = r.as_ref().unwrap();
    assert!(out.len() == 24);
    let got = u64::from_le_bytes([out[0], out[1], out[2], out[3], out[4], out[5], out[6], out[7]]);
    let want = lagrange0(&[x1, x2, 0], &[y1, y2, 0], 2);
    assert!(got == want, "Lagrange interpolation at 0 (t = 2)");
    kani::cover!(true, "reached");
    core::mem::forget((r, v));
}
sf_stubs! { #[kani::unwind(5)] fn c06_interpolate_t2() { interp2() } }

/// threshold 1: interpolating a single share returns its value (whatever the point)
fn interp1() {
    ro_reset();
    let x1: u64 = kani::any();
    let y1: u64 = kani::any();
    kani::assume(x1 < Q && y1 < Q);
    let v = [Share { x: mk(x1), y: vec![mk(y1)] }];
    let r = star_sharks::interpolate(&v);
    assert!(r.is_ok());
    let out = r.as_ref().unwrap();
    assert!(out.len() == 24);
    let got = u64::from_le_bytes([out[0], out[1], out[2], out[3], out[4], out[5], out[6], out[7]]);
    assert!(got == y1, "a single share interpolates to its own value (t = 1)");
    kani::cover!(true, "reached");
    core::mem::forget((r, v));
}
sf_stubs! { #[kani::unwind(5)] fn c06_interpolate_t1() { interp1() } }

fn interp3() {
    ro_reset();
    let x1: u64 = kani::any();
    let x2: u64 = kani::any();
    let x3: u64 = kani::any();
    let y1: u64 = kani::any();
    let y2: u64 = kani::any();
    let y3: u64 = kani::any();
    kani::assume(x1 < Q && x2 < Q && x3 < Q && y1 < Q && y2 < Q && y3 < Q);
    kani::assume(x1 != x2 && x1 != x3 && x2 != x3);
    let v = [Share { x: mk(x1), y: vec![mk(y1)] }, Share { x: mk(x2), y: vec![mk(y2)] }, Share { x: mk(x3), y: vec![mk(y3)] }];
    let r = star_sharks::interpolate(&v);
    assert!(r.is_ok());
    let out = r.as_ref().unwrap();
    let got = u64::from_le_bytes([out[0], out[1], out[2], out[3], out[4], out[5], out[6], out[7]]);
    let want = lagrange0(&[x1, x2, x3], &[y1, y2, y3], 3);
    assert!(got == want, "Lagrange interpolation at 0 (t = 3)");
    kani::cover!(true, "reached");
    core::mem::forget((r, v));
}
sf_stubs! { #[kani::unwind(5)] fn c06_interpolate_t3() { interp3() } }


/// large thresholds: the number of coefficient draws is exactly t-1 also where a narrowed
/// counter would wrap (t = 256, 257)
fn dealer_big(t: u32) {
    let v: u64 = kani::any();
    kani::assume(v < Q);
    let secret = small_elem_bytes(v);
    ro_reset();
    unsafe {
        ANY_WORDS = 0;
    }
    let mut rng = AnyRng;
    let sh = Sharks(t);
    let r = sh.dealer_rng(&secret[..], &mut rng);
    assert!(r.is_ok());
    assert!(unsafe { FP_RANDOM_CALLS } == t as usize - 1, "exactly t-1 coefficient draws");
    assert!(unsafe { ANY_WORDS } == 3 * (t as usize - 1));
    kani::cover!(true, "reached");
    core::mem::forget(r);
}
sf_stubs! { #[kani::unwind(5)] fn c06_dealer_t256() { dealer_big(256) } }
sf_stubs! { #[kani::unwind(5)] fn c06_dealer_t257() { dealer_big(257) } }
