//! Stub library of Engine K (see DESIGN.md §2.1).  Every stub here replaces code
//! that is *outside* the repository (Keccak-f, the OS RNG, zeroisation, formatting)
//! or a derived field routine whose specification is proved separately (C07).
//! Each stub is part of the claim of every harness that names it.
#![allow(static_mut_refs)]
#![allow(dead_code)]

use star_sharks::Fp;

// ---------------------------------------------------------------------------
// zeroize / drop
// ---------------------------------------------------------------------------

/// `zeroize::optimization_barrier` is inline asm (not modelled by Kani) -> no-op.
pub fn barrier_noop<T: ?Sized>(_: &T) {}

/// `zeroize::volatile_set`: the volatile memset loop; erasure is irrelevant to
/// every property checked here, so the loop is dropped.
pub unsafe fn volatile_set_noop<T: Copy + Sized>(_dst: *mut T, _src: T, _count: usize) {}

/// `<Strobe as Drop>::drop` (200-iteration volatile zeroise) -> no-op.
pub fn strobe_drop_noop(_s: &mut strobe_rs::Strobe) {}

/// `alloc::fmt::format`: error-message construction only.
pub fn fmt_noop(_args: core::fmt::Arguments<'_>) -> String {
    String::new()
}

// ---------------------------------------------------------------------------
// Keccak-f[1600] as an uninterpreted function, position-aligned two-run memo
// ---------------------------------------------------------------------------

pub const MAXLOG: usize = 40;
const Z: [u64; 25] = [0u64; 25];

/// which run is executing: 0 = run A (record), 1 = run B (replay A's outputs while the
/// permutation inputs coincide, fresh values afterwards), 2 = run C (same against A)
pub static mut RUN: u8 = 201;
pub static mut NA: usize = 0x5EED_0000_0000_0002;
pub static mut NB: usize = 0x5EED_0000_0000_0003;
pub static mut PRE_A: [[u64; 25]; MAXLOG] = [Z; MAXLOG];
pub static mut OUT_A: [[u64; 25]; MAXLOG] = [Z; MAXLOG];
pub static mut PRE_B: [[u64; 25]; MAXLOG] = [Z; MAXLOG];
pub static mut OUT_B: [[u64; 25]; MAXLOG] = [Z; MAXLOG];
/// index of the first call of run B whose input differs from run A's (MAXLOG = none yet)
pub static mut FIRST_DIFF: usize = 0x5EED_0000_0000_0004;

#[inline(always)]
pub fn st_eq(a: &[u64; 25], b: &[u64; 25]) -> bool {
    // loop-free 200-byte comparison
    ((a[0] ^ b[0])
        | (a[1] ^ b[1])
        | (a[2] ^ b[2])
        | (a[3] ^ b[3])
        | (a[4] ^ b[4])
        | (a[5] ^ b[5])
        | (a[6] ^ b[6])
        | (a[7] ^ b[7])
        | (a[8] ^ b[8])
        | (a[9] ^ b[9])
        | (a[10] ^ b[10])
        | (a[11] ^ b[11])
        | (a[12] ^ b[12])
        | (a[13] ^ b[13])
        | (a[14] ^ b[14])
        | (a[15] ^ b[15])
        | (a[16] ^ b[16])
        | (a[17] ^ b[17])
        | (a[18] ^ b[18])
        | (a[19] ^ b[19])
        | (a[20] ^ b[20])
        | (a[21] ^ b[21])
        | (a[22] ^ b[22])
        | (a[23] ^ b[23])
        | (a[24] ^ b[24]))
        == 0
}

/// Uninterpreted-function model of the permutation.
///
/// Run A: every call returns a fresh arbitrary state (logged).
/// Run B: call k returns A's k-th output as long as every input so far equalled A's
/// (so B is bit-identical to A up to the first differing input, whatever the
/// permutation is); from the first differing input on, outputs are fresh.
/// This over-approximates a true function (unaligned coincidences are not tied),
/// so a universal claim shown under it holds for every permutation.
pub fn f1600_uf(st: &mut [u64; 25]) {
    unsafe {
        if RUN == 0 {
            let k = NA;
            assert!(k < MAXLOG, "permutation log overflow");
            PRE_A[k] = *st;
            let o: [u64; 25] = kani::any();
            OUT_A[k] = o;
            *st = o;
            NA = k + 1;
        } else {
            let k = NB;
            assert!(k < MAXLOG, "permutation log overflow");
            PRE_B[k] = *st;
            if FIRST_DIFF == MAXLOG && k < NA && st_eq(&PRE_A[k], st) {
                *st = OUT_A[k];
            } else {
                if FIRST_DIFF == MAXLOG {
                    FIRST_DIFF = k;
                }
                *st = kani::any();
            }
            OUT_B[k] = *st;
            NB = k + 1;
        }
    }
}

// ---------------------------------------------------------------------------
// Keccak-f[1600] as a collision-free random oracle (memo table over all calls)
// ---------------------------------------------------------------------------

pub const ROLOG: usize = 72;
pub static mut RO_N: usize = 0x5EED_0000_0000_0005;
pub static mut RO_PRE: [[u64; 25]; ROLOG] = [Z; ROLOG];
pub static mut RO_OUT: [[u64; 25]; ROLOG] = [Z; ROLOG];
/// number of calls answered from the memo table (input seen before)
pub static mut RO_HITS: usize = 0x5EED_0000_0000_0006;

/// Ideal-permutation model used for every "equal iff" claim: a call whose 200-byte
/// input equals an earlier call's input returns that call's output (function
/// property); any other call returns a fresh arbitrary state that is *assumed* to
/// differ from every earlier output in its first 16 bytes (no truncated collision —
/// the stated cryptographic assumption; every digest/key/tag/MAC/keystream of the
/// protocol starts at byte 0 of a permutation output).
pub fn f1600_ro(st: &mut [u64; 25]) {
    unsafe {
        let k = RO_N;
        assert!(k < ROLOG, "permutation log overflow");
        RO_PRE[k] = *st;
        let fresh: [u64; 25] = kani::any();
        let mut out = fresh;
        let mut hit = false;
        let mut j = 0;
        while j < k {
            if st_eq(&RO_PRE[j], st) {
                out = RO_OUT[j];
                hit = true;
            }
            // no truncated collision: a fresh output differs from every earlier one in its
            // first 16 bytes (what digests / keys / MACs expose) *and* in the last capacity
            // lane (never overwritten or exposed, so two states cannot re-converge after
            // the rate part is overwritten by a key)
            kani::assume(fresh[0] != RO_OUT[j][0] || fresh[1] != RO_OUT[j][1]);
            kani::assume(fresh[24] != RO_OUT[j][24]);
            j += 1;
        }
        if hit {
            RO_HITS += 1;
        }
        RO_OUT[k] = out;
        *st = out;
        RO_N = k + 1;
    }
}

/// Every harness calls this first.  The scalar statics above deliberately start with
/// unusual values: Kani 0.68 was observed to let a zero-initialised `static mut usize`
/// share its allocation with equal-valued constants of the standard library (after three
/// OS draws `Vec::new()` reported capacity 3), so no static here starts at a common value
/// and all of them are set at run time.
pub fn ro_reset() {
    unsafe {
        RO_N = 0;
        RO_HITS = 0;
        RUN = 0;
        NA = 0;
        NB = 0;
        FIRST_DIFF = MAXLOG;
        OS_DRAWS = 0;
        OS_K = 0;
        FP_RANDOM_CALLS = 0;
        RNG_WORDS = 0;
    }
}

/// Permutation returning fresh arbitrary values and logging nothing: crash-freedom
/// harnesses, where the claim is "for every behaviour of the permutation".
pub fn f1600_any(st: &mut [u64; 25]) {
    *st = kani::any();
}

pub fn uf_reset() {
    unsafe {
        RUN = 0;
        NA = 0;
        NB = 0;
        FIRST_DIFF = MAXLOG;
    }
}
pub fn uf_run_b() {
    unsafe {
        RUN = 1;
        NB = 0;
        FIRST_DIFF = MAXLOG;
    }
}
pub fn uf_same_inputs() -> bool {
    unsafe { FIRST_DIFF == MAXLOG && NA == NB }
}

pub fn le_bytes(st: &[u64; 25], i: usize) -> u8 {
    (st[i / 8] >> (8 * (i % 8))) as u8
}

// ---------------------------------------------------------------------------
// OS randomness
// ---------------------------------------------------------------------------

pub static mut OS_DRAWS: usize = 0x5EED_0000_0000_0007;
/// number of permutation calls / Fp::random calls seen when the first OS word was drawn
pub static mut OS_AT_RO_N: usize = 0x5EED_0000_0000_00b1;
pub static mut OS_AT_FP_CALLS: usize = 0x5EED_0000_0000_00b2;
pub static mut OS_LAST: [u64; 3] = [0; 3];
pub static mut OS_K: usize = 0x5EED_0000_0000_0008;

/// `<OsRng as RngCore>::next_u64`: arbitrary value, counted.
pub fn osrng_next_u64(_r: &mut rand::rngs::OsRng) -> u64 {
    let v: u64 = kani::any();
    unsafe {
        OS_LAST[OS_K % 3] = v;
        OS_K += 1;
        OS_DRAWS += 1;
        RNG_WORDS += 1;
    }
    v
}
/// As `osrng_next_u64`, but the first word of every 3-word candidate is non-zero, so
/// the share point is accepted at the first draw (executions that resample are outside
/// the claim of the harnesses using this stub; resampling itself is C06's obligation).
pub fn osrng_next_u64_nz(_r: &mut rand::rngs::OsRng) -> u64 {
    let v: u64 = kani::any();
    unsafe {
        if OS_K == 0 {
            OS_AT_RO_N = RO_N;
            OS_AT_FP_CALLS = FP_RANDOM_CALLS;
        }
        if OS_K % 3 == 0 {
            kani::assume(v != 0);
        }
        OS_LAST[OS_K % 3] = v;
        OS_K += 1;
        OS_DRAWS += 1;
        RNG_WORDS += 1;
    }
    v
}
pub fn osrng_next_u32(_r: &mut rand::rngs::OsRng) -> u32 {
    unsafe {
        OS_DRAWS += 1;
    }
    kani::any()
}

// ---------------------------------------------------------------------------
// Fp::random: one pass of the rejection loop, conditioned on acceptance
// ---------------------------------------------------------------------------

pub const P_LIMBS: [u64; 3] = [12451, 0, 1];

pub fn limbs_lt_p(l: &[u64; 3]) -> bool {
    l[2] == 0 || (l[2] == 1 && l[1] == 0 && l[0] < 12451)
}

pub fn fp_from_limbs(l: [u64; 3]) -> Fp {
    // Fp is a `#[repr(Rust)]` tuple struct around [u64; 3]; size checked by the
    // repository's own `element_length` test and by `c07` harness `fp_layout`.
    unsafe { core::mem::transmute::<[u64; 3], Fp>(l) }
}
pub fn fp_limbs(f: &Fp) -> [u64; 3] {
    unsafe { core::mem::transmute::<Fp, [u64; 3]>(*f) }
}

pub static mut FP_RANDOM_CALLS: usize = 0x5EED_0000_0000_0009;
pub static mut FP_RANDOM_LOG: [[u64; 3]; 8] = [[0; 3]; 8];

/// `<Fp as ff::Field>::random`: draws three `next_u64` from the supplied source,
/// masks the top limb exactly like the derived code, and *assumes* the candidate is
/// accepted (the unbounded retry loop is outside the claim).
pub fn fp_random_one_pass<R: rand_core::RngCore>(mut rng: R) -> Fp {
    let mut l = [0u64; 3];
    l[0] = rng.next_u64();
    l[1] = rng.next_u64();
    l[2] = rng.next_u64();
    l[2] &= 0xffff_ffff_ffff_ffffu64 >> 63;
    kani::assume(limbs_lt_p(&l));
    unsafe {
        if FP_RANDOM_CALLS < 8 {
            FP_RANDOM_LOG[FP_RANDOM_CALLS] = l;
        }
        FP_RANDOM_CALLS += 1;
    }
    fp_from_limbs(l)
}

// ---------------------------------------------------------------------------
// Fp byte conversion replaced by the specification C07 proves for it
// ---------------------------------------------------------------------------

/// `<Fp as PrimeField>::from_repr` by its C07-proved specification: accepts exactly
/// the little-endian encodings of integers below p.  The Montgomery conversion is
/// abstracted to the identity on limbs (any bijection onto valid limb triples gives
/// the same verdict for code that only copies/compares elements).
pub fn fp_from_repr_spec(r: star_sharks::FpRepr) -> subtle::CtOption<Fp> {
    let b = r.0;
    let l = [
        u64::from_le_bytes([b[0], b[1], b[2], b[3], b[4], b[5], b[6], b[7]]),
        u64::from_le_bytes([b[8], b[9], b[10], b[11], b[12], b[13], b[14], b[15]]),
        u64::from_le_bytes([b[16], b[17], b[18], b[19], b[20], b[21], b[22], b[23]]),
    ];
    let ok = limbs_lt_p(&l);
    subtle::CtOption::new(fp_from_limbs(l), subtle::Choice::from(ok as u8))
}

/// `<Fp as PrimeField>::to_repr`, inverse of `fp_from_repr_spec`.
pub fn fp_to_repr_spec(f: &Fp) -> star_sharks::FpRepr {
    let l = fp_limbs(f);
    let a = l[0].to_le_bytes();
    let b = l[1].to_le_bytes();
    let c = l[2].to_le_bytes();
    star_sharks::FpRepr([
        a[0], a[1], a[2], a[3], a[4], a[5], a[6], a[7], b[0], b[1], b[2], b[3], b[4], b[5], b[6],
        b[7], c[0], c[1], c[2], c[3], c[4], c[5], c[6], c[7],
    ])
}

/// `<Vec<u8> as Zeroize>::zeroize`: erasure loops over contents and spare capacity;
/// irrelevant to every property here, and their trip count is a symbolic length.
pub fn vec_zeroize_noop(_v: &mut Vec<u8>) {}

// Drop impls of the repository's own types only zeroise memory (derived
// `ZeroizeOnDrop` / explicit `zeroize()` calls); erasure is not part of any property
// here and its loops run over symbolic lengths, so they are cut.
pub fn drop_noop_star_share(_s: &mut sta_rs::Share) {}
pub fn drop_noop_access(_s: &mut adss::AccessStructure) {}
pub fn drop_noop_commune(_s: &mut adss::Commune) {}
pub fn drop_noop_mg(_s: &mut sta_rs::MessageGenerator) {}
pub fn drop_noop_measurement(_s: &mut sta_rs::SingleMeasurement) {}

/// `Fp::is_valid` (private, derived): used with the *real* `Fp::random` — the
/// candidate is assumed valid, so the rejection loop exits in its first pass
/// ("conditioned on acceptance"); also logs the accepted candidate.
pub fn fp_is_valid_assume(f: &Fp) -> bool {
    let l = fp_limbs(f);
    unsafe {
        if RNG_WORDS >= 3 {
            // the acceptance test of `Fp::random` (three source words were just drawn)
            RNG_WORDS = 0;
            kani::assume(limbs_lt_p(&l));
            if FP_RANDOM_CALLS < 8 {
                FP_RANDOM_LOG[FP_RANDOM_CALLS] = l;
            }
            FP_RANDOM_CALLS += 1;
            return true;
        }
    }
    // any other caller (`reduce`): the exact predicate (C07: is_valid(a) <=> a < p)
    limbs_lt_p(&l)
}

/// number of `next_u64` words drawn from any source since the last `Fp::random` acceptance
/// test; lets the `is_valid` stub recognise that test (it is the only `is_valid` call that
/// directly follows three source words)
pub static mut RNG_WORDS: usize = 0x5EED_0000_0000_00a7;

/// `rand_core::impls::next_u64_via_fill` (used by the repository's StrobeRng): same
/// behaviour, counted
pub fn next_u64_via_fill_counted<R: rand_core::RngCore + ?Sized>(rng: &mut R) -> u64 {
    let mut buf = [0u8; 8];
    rng.fill_bytes(&mut buf);
    unsafe {
        RNG_WORDS += 1;
    }
    u64::from_le_bytes(buf)
}

// ---------------------------------------------------------------------------
// byteorder: the 200-byte <-> 25-lane conversions around the permutation, written
// loop-free (same function, cheaper symbolic execution). Only used with 25 lanes.
// ---------------------------------------------------------------------------
pub fn read_u64_into_25(src: &[u8], dst: &mut [u64]) {
    assert!(src.len() == 200 && dst.len() == 25);
    dst[0] = u64::from_le_bytes([src[0], src[1], src[2], src[3], src[4], src[5], src[6], src[7]]);
    dst[1] = u64::from_le_bytes([src[8], src[9], src[10], src[11], src[12], src[13], src[14], src[15]]);
    dst[2] = u64::from_le_bytes([src[16], src[17], src[18], src[19], src[20], src[21], src[22], src[23]]);
    dst[3] = u64::from_le_bytes([src[24], src[25], src[26], src[27], src[28], src[29], src[30], src[31]]);
    dst[4] = u64::from_le_bytes([src[32], src[33], src[34], src[35], src[36], src[37], src[38], src[39]]);
    dst[5] = u64::from_le_bytes([src[40], src[41], src[42], src[43], src[44], src[45], src[46], src[47]]);
    dst[6] = u64::from_le_bytes([src[48], src[49], src[50], src[51], src[52], src[53], src[54], src[55]]);
    dst[7] = u64::from_le_bytes([src[56], src[57], src[58], src[59], src[60], src[61], src[62], src[63]]);
    dst[8] = u64::from_le_bytes([src[64], src[65], src[66], src[67], src[68], src[69], src[70], src[71]]);
    dst[9] = u64::from_le_bytes([src[72], src[73], src[74], src[75], src[76], src[77], src[78], src[79]]);
    dst[10] = u64::from_le_bytes([src[80], src[81], src[82], src[83], src[84], src[85], src[86], src[87]]);
    dst[11] = u64::from_le_bytes([src[88], src[89], src[90], src[91], src[92], src[93], src[94], src[95]]);
    dst[12] = u64::from_le_bytes([src[96], src[97], src[98], src[99], src[100], src[101], src[102], src[103]]);
    dst[13] = u64::from_le_bytes([src[104], src[105], src[106], src[107], src[108], src[109], src[110], src[111]]);
    dst[14] = u64::from_le_bytes([src[112], src[113], src[114], src[115], src[116], src[117], src[118], src[119]]);
    dst[15] = u64::from_le_bytes([src[120], src[121], src[122], src[123], src[124], src[125], src[126], src[127]]);
    dst[16] = u64::from_le_bytes([src[128], src[129], src[130], src[131], src[132], src[133], src[134], src[135]]);
    dst[17] = u64::from_le_bytes([src[136], src[137], src[138], src[139], src[140], src[141], src[142], src[143]]);
    dst[18] = u64::from_le_bytes([src[144], src[145], src[146], src[147], src[148], src[149], src[150], src[151]]);
    dst[19] = u64::from_le_bytes([src[152], src[153], src[154], src[155], src[156], src[157], src[158], src[159]]);
    dst[20] = u64::from_le_bytes([src[160], src[161], src[162], src[163], src[164], src[165], src[166], src[167]]);
    dst[21] = u64::from_le_bytes([src[168], src[169], src[170], src[171], src[172], src[173], src[174], src[175]]);
    dst[22] = u64::from_le_bytes([src[176], src[177], src[178], src[179], src[180], src[181], src[182], src[183]]);
    dst[23] = u64::from_le_bytes([src[184], src[185], src[186], src[187], src[188], src[189], src[190], src[191]]);
    dst[24] = u64::from_le_bytes([src[192], src[193], src[194], src[195], src[196], src[197], src[198], src[199]]);
}
pub fn write_u64_into_25(src: &[u64], dst: &mut [u8]) {
    assert!(src.len() == 25 && dst.len() == 200);
    { let b = src[0].to_le_bytes(); dst[0] = b[0]; dst[1] = b[1]; dst[2] = b[2]; dst[3] = b[3]; dst[4] = b[4]; dst[5] = b[5]; dst[6] = b[6]; dst[7] = b[7]; }
    { let b = src[1].to_le_bytes(); dst[8] = b[0]; dst[9] = b[1]; dst[10] = b[2]; dst[11] = b[3]; dst[12] = b[4]; dst[13] = b[5]; dst[14] = b[6]; dst[15] = b[7]; }
    { let b = src[2].to_le_bytes(); dst[16] = b[0]; dst[17] = b[1]; dst[18] = b[2]; dst[19] = b[3]; dst[20] = b[4]; dst[21] = b[5]; dst[22] = b[6]; dst[23] = b[7]; }
    { let b = src[3].to_le_bytes(); dst[24] = b[0]; dst[25] = b[1]; dst[26] = b[2]; dst[27] = b[3]; dst[28] = b[4]; dst[29] = b[5]; dst[30] = b[6]; dst[31] = b[7]; }
    { let b = src[4].to_le_bytes(); dst[32] = b[0]; dst[33] = b[1]; dst[34] = b[2]; dst[35] = b[3]; dst[36] = b[4]; dst[37] = b[5]; dst[38] = b[6]; dst[39] = b[7]; }
    { let b = src[5].to_le_bytes(); dst[40] = b[0]; dst[41] = b[1]; dst[42] = b[2]; dst[43] = b[3]; dst[44] = b[4]; dst[45] = b[5]; dst[46] = b[6]; dst[47] = b[7]; }
    { let b = src[6].to_le_bytes(); dst[48] = b[0]; dst[49] = b[1]; dst[50] = b[2]; dst[51] = b[3]; dst[52] = b[4]; dst[53] = b[5]; dst[54] = b[6]; dst[55] = b[7]; }
    { let b = src[7].to_le_bytes(); dst[56] = b[0]; dst[57] = b[1]; dst[58] = b[2]; dst[59] = b[3]; dst[60] = b[4]; dst[61] = b[5]; dst[62] = b[6]; dst[63] = b[7]; }
    { let b = src[8].to_le_bytes(); dst[64] = b[0]; dst[65] = b[1]; dst[66] = b[2]; dst[67] = b[3]; dst[68] = b[4]; dst[69] = b[5]; dst[70] = b[6]; dst[71] = b[7]; }
    { let b = src[9].to_le_bytes(); dst[72] = b[0]; dst[73] = b[1]; dst[74] = b[2]; dst[75] = b[3]; dst[76] = b[4]; dst[77] = b[5]; dst[78] = b[6]; dst[79] = b[7]; }
    { let b = src[10].to_le_bytes(); dst[80] = b[0]; dst[81] = b[1]; dst[82] = b[2]; dst[83] = b[3]; dst[84] = b[4]; dst[85] = b[5]; dst[86] = b[6]; dst[87] = b[7]; }
    { let b = src[11].to_le_bytes(); dst[88] = b[0]; dst[89] = b[1]; dst[90] = b[2]; dst[91] = b[3]; dst[92] = b[4]; dst[93] = b[5]; dst[94] = b[6]; dst[95] = b[7]; }
    { let b = src[12].to_le_bytes(); dst[96] = b[0]; dst[97] = b[1]; dst[98] = b[2]; dst[99] = b[3]; dst[100] = b[4]; dst[101] = b[5]; dst[102] = b[6]; dst[103] = b[7]; }
    { let b = src[13].to_le_bytes(); dst[104] = b[0]; dst[105] = b[1]; dst[106] = b[2]; dst[107] = b[3]; dst[108] = b[4]; dst[109] = b[5]; dst[110] = b[6]; dst[111] = b[7]; }
    { let b = src[14].to_le_bytes(); dst[112] = b[0]; dst[113] = b[1]; dst[114] = b[2]; dst[115] = b[3]; dst[116] = b[4]; dst[117] = b[5]; dst[118] = b[6]; dst[119] = b[7]; }
    { let b = src[15].to_le_bytes(); dst[120] = b[0]; dst[121] = b[1]; dst[122] = b[2]; dst[123] = b[3]; dst[124] = b[4]; dst[125] = b[5]; dst[126] = b[6]; dst[127] = b[7]; }
    { let b = src[16].to_le_bytes(); dst[128] = b[0]; dst[129] = b[1]; dst[130] = b[2]; dst[131] = b[3]; dst[132] = b[4]; dst[133] = b[5]; dst[134] = b[6]; dst[135] = b[7]; }
    { let b = src[17].to_le_bytes(); dst[136] = b[0]; dst[137] = b[1]; dst[138] = b[2]; dst[139] = b[3]; dst[140] = b[4]; dst[141] = b[5]; dst[142] = b[6]; dst[143] = b[7]; }
    { let b = src[18].to_le_bytes(); dst[144] = b[0]; dst[145] = b[1]; dst[146] = b[2]; dst[147] = b[3]; dst[148] = b[4]; dst[149] = b[5]; dst[150] = b[6]; dst[151] = b[7]; }
    { let b = src[19].to_le_bytes(); dst[152] = b[0]; dst[153] = b[1]; dst[154] = b[2]; dst[155] = b[3]; dst[156] = b[4]; dst[157] = b[5]; dst[158] = b[6]; dst[159] = b[7]; }
    { let b = src[20].to_le_bytes(); dst[160] = b[0]; dst[161] = b[1]; dst[162] = b[2]; dst[163] = b[3]; dst[164] = b[4]; dst[165] = b[5]; dst[166] = b[6]; dst[167] = b[7]; }
    { let b = src[21].to_le_bytes(); dst[168] = b[0]; dst[169] = b[1]; dst[170] = b[2]; dst[171] = b[3]; dst[172] = b[4]; dst[173] = b[5]; dst[174] = b[6]; dst[175] = b[7]; }
    { let b = src[22].to_le_bytes(); dst[176] = b[0]; dst[177] = b[1]; dst[178] = b[2]; dst[179] = b[3]; dst[180] = b[4]; dst[181] = b[5]; dst[182] = b[6]; dst[183] = b[7]; }
    { let b = src[23].to_le_bytes(); dst[184] = b[0]; dst[185] = b[1]; dst[186] = b[2]; dst[187] = b[3]; dst[188] = b[4]; dst[189] = b[5]; dst[190] = b[6]; dst[191] = b[7]; }
    { let b = src[24].to_le_bytes(); dst[192] = b[0]; dst[193] = b[1]; dst[194] = b[2]; dst[195] = b[3]; dst[196] = b[4]; dst[197] = b[5]; dst[198] = b[6]; dst[199] = b[7]; }
}

// ---------------------------------------------------------------------------
// field multiplication by the laws C07 proves for it (used where only 0 / 1 operands
// occur or the product value does not matter)
// ---------------------------------------------------------------------------
pub const ONE_LIMBS: [u64; 3] = [12451, 18446744073709539165, 0]; // 2^192 mod p (C07: val(ONE) = 1)

/// `<Fp as MulAssign<&Fp>>::mul_assign`: 0*b = 0, a*0 = 0, ONE*b = b, a*ONE = a; any other
/// product is an arbitrary canonical non-zero element (p prime: no zero divisors).
pub fn fp_mul_assign_laws<'r>(a: &mut Fp, b: &'r Fp)
where
    'r: 'r,
{
    let la = fp_limbs(a);
    let lb = fp_limbs(b);
    let z = [0u64; 3];
    let r = if la == z || lb == z {
        z
    } else if la == ONE_LIMBS {
        lb
    } else if lb == ONE_LIMBS {
        la
    } else {
        let x: [u64; 3] = kani::any();
        kani::assume(limbs_lt_p(&x) && x != z);
        x
    };
    *a = fp_from_limbs(r);
}

/// `<Fp as Field>::invert`: None iff zero (C07: a^(p-2), flag = !is_zero); the value
/// is an arbitrary non-zero canonical element, ONE for ONE.
pub fn fp_invert_laws(a: &Fp) -> subtle::CtOption<Fp> {
    let la = fp_limbs(a);
    let z = [0u64; 3];
    let r = if la == ONE_LIMBS {
        ONE_LIMBS
    } else {
        let x: [u64; 3] = kani::any();
        kani::assume(limbs_lt_p(&x) && x != z);
        x
    };
    subtle::CtOption::new(fp_from_limbs(r), subtle::Choice::from((la != z) as u8))
}

// ---------------------------------------------------------------------------
// Sharks::recover without BTreeSet
// ---------------------------------------------------------------------------
/// `star_sharks::Sharks::recover` replaced by the behaviour Engine M proves for it from
/// the MIR (C06 obligation `recover-structure`): shares of unequal length are refused;
/// fewer than `threshold` distinct points (or no share) are refused; otherwise
/// `interpolate` is applied to the first `threshold` shares with pairwise distinct
/// points, in input order.  (std's BTreeSet is beyond CBMC's reach even on concrete
/// keys; the real `interpolate` is still called.)
pub fn sharks_recover_ref<'a, T>(this: &star_sharks::Sharks, shares: T) -> Result<Vec<u8>, &'static str>
where
    T: IntoIterator<Item = &'a star_sharks::Share>,
    T::IntoIter: Iterator<Item = &'a star_sharks::Share>,
{
    let mut len: Option<usize> = None;
    let mut values: Vec<star_sharks::Share> = Vec::new();
    for s in shares.into_iter() {
        if len.is_none() {
            len = Some(s.y.len());
        }
        if Some(s.y.len()) != len {
            return Err("All shares must have the same length");
        }
        let lx = fp_limbs(&s.x);
        let mut dup = false;
        let mut i = 0;
        while i < values.len() {
            let l = fp_limbs(&values[i].x);
            if l[0] == lx[0] && l[1] == lx[1] && l[2] == lx[2] {
                dup = true;
            }
            i += 1;
        }
        if !dup {
            values.push(s.clone());
        }
    }
    if values.is_empty() || values.len() < this.0 as usize {
        Err("Not enough shares to recover original secret")
    } else {
        star_sharks::interpolate(&values[0..this.0 as usize])
    }
}

/// `star_sharks::interpolate` as an arbitrary function: any `Ok(24 bytes)` or `Err`
/// (fault-model harnesses: the claim must hold whatever key interpolation of mixed,
/// foreign or altered points yields)
pub fn interpolate_any(_shares: &[star_sharks::Share]) -> Result<Vec<u8>, &'static str> {
    if kani::any() {
        let k: [u8; 24] = kani::any();
        Ok(k.to_vec())
    } else {
        Err("interpolation failed")
    }
}

pub fn out_byte(k: usize, i: usize) -> u8 {
    unsafe { le_bytes(&RO_OUT[k], i) }
}

/// `Sharks::recover` as an arbitrary function (fault-model harness `any_key`)
pub fn sharks_recover_any_key<'a, T>(_this: &star_sharks::Sharks, _shares: T) -> Result<Vec<u8>, &'static str>
where
    T: IntoIterator<Item = &'a star_sharks::Share>,
    T::IntoIter: Iterator<Item = &'a star_sharks::Share>,
{
    if kani::any() {
        let k: [u8; 24] = kani::any();
        Ok(k.to_vec())
    } else {
        Err("not enough shares")
    }
}

/// `Sharks::recover` returning the *honest* key of the sharing under test: K || 0^8 with K
/// the PRF output of permutation call 3 (what the Shamir layer returns when the points and
/// values are untouched: `c16_structure_*` shows y = K||0 for t = 1 and `c16_recover_t1_*`
/// runs the real interpolation).  Used where exactly one *other* field is altered.
pub fn sharks_recover_honest_key<'a, T>(_this: &star_sharks::Sharks, _shares: T) -> Result<Vec<u8>, &'static str>
where
    T: IntoIterator<Item = &'a star_sharks::Share>,
    T::IntoIter: Iterator<Item = &'a star_sharks::Share>,
{
    let k0 = unsafe { RO_OUT[3][0] }.to_le_bytes();
    let k1 = unsafe { RO_OUT[3][1] }.to_le_bytes();
    let mut v = Vec::with_capacity(24);
    v.extend_from_slice(&k0);
    v.extend_from_slice(&k1);
    v.extend_from_slice(&[0u8; 8]);
    Ok(v)
}

/// `Sharks::recover` refusing (the counting gate itself is decided by Engine M)
pub fn sharks_recover_err<'a, T>(_this: &star_sharks::Sharks, _shares: T) -> Result<Vec<u8>, &'static str>
where
    T: IntoIterator<Item = &'a star_sharks::Share>,
    T::IntoIter: Iterator<Item = &'a star_sharks::Share>,
{
    Err("Not enough shares to recover original secret")
}

// ---------------------------------------------------------------------------
// `Sharks::recover` as a recorder: what does adss::recover hand to the Shamir layer?
// ---------------------------------------------------------------------------
pub static mut REC_T: u32 = 0x5EED_0401;
pub static mut REC_N: usize = 0x5EED_0403;
pub static mut REC_DISTINCT: usize = 0x5EED_0405;
pub static mut REC_CALLS: usize = 0x5EED_0407;
/// records the threshold it is called with, the number of points and the number of pairwise
/// distinct points (up to 4 points), then refuses
pub fn sharks_recover_record<'a, T>(this: &star_sharks::Sharks, shares: T) -> Result<Vec<u8>, &'static str>
where
    T: IntoIterator<Item = &'a star_sharks::Share>,
    T::IntoIter: Iterator<Item = &'a star_sharks::Share>,
{
    let mut xs = [[0u64; 3]; 4];
    let mut n = 0usize;
    let mut d = 0usize;
    let mut it = shares.into_iter();
    let mut k = 0;
    while k < 5 {
        match it.next() {
            None => break,
            Some(s) => {
                let lx = fp_limbs(&s.x);
                let mut dup = false;
                let mut i = 0;
                while i < 4 {
                    if i < n && xs[i][0] == lx[0] && xs[i][1] == lx[1] && xs[i][2] == lx[2] {
                        dup = true;
                    }
                    i += 1;
                }
                if n < 4 {
                    xs[n] = lx;
                }
                n += 1;
                if !dup {
                    d += 1;
                }
            }
        }
        k += 1;
    }
    unsafe {
        REC_T = this.0;
        REC_N = n;
        REC_DISTINCT = d;
        REC_CALLS = if REC_CALLS == 0x5EED_0407 { 1 } else { REC_CALLS + 1 };
    }
    Err("Not enough shares to recover original secret")
}

/// `Sharks::recover` returning a key of *arbitrary length* (0, 8, 15, 16 or 24 bytes) or an
/// error: what the Shamir layer hands back for foreign shares (e.g. shares without values give
/// an empty key) must never crash `adss::recover`
pub fn sharks_recover_any_len<'a, T>(_this: &star_sharks::Sharks, _shares: T) -> Result<Vec<u8>, &'static str>
where
    T: IntoIterator<Item = &'a star_sharks::Share>,
    T::IntoIter: Iterator<Item = &'a star_sharks::Share>,
{
    let k: [u8; 24] = kani::any();
    let sel: u8 = kani::any();
    match sel {
        0 => Err("not enough shares"),
        1 => Ok(Vec::new()),
        2 => Ok(k[..8].to_vec()),
        3 => Ok(k[..15].to_vec()),
        4 => Ok(k[..16].to_vec()),
        _ => Ok(k.to_vec()),
    }
}
