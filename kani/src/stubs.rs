//! Stub library of Engine K (see DESIGN.md §2.1).  Every stub here replaces code
//! that is *outside* the repository (Keccak-f, the OS RNG, zeroisation, formatting)
//! or a derived field routine whose specification is proved separately (C07).
//! Each stub is part of the claim of every harness that names it.
#![allow(static_mut_refs)]
#![allow(dead_code)]

use star_sharks::Fp;

// ---------------------------------------------------------------------------
// zeroize / drop
// ---------------------------------------------------------------------------

/// `zeroize::optimization_barrier` is inline asm (not modelled by Kani) -> no-op.
pub fn barrier_noop<T: ?Sized>(_: &T) {}

/// `zeroize::volatile_set`: the volatile memset loop; erasure is irrelevant to
/// every property checked here, so the loop is dropped.
pub unsafe fn volatile_set_noop<T: Copy + Sized>(_dst: *mut T, _src: T, _count: usize) {}

/// `<Strobe as Drop>::drop` (200-iteration volatile zeroise) -> no-op.
pub fn strobe_drop_noop(_s: &mut strobe_rs::Strobe) {}

/// `alloc::fmt::format`: error-message construction only.
pub fn fmt_noop(_args: core::fmt::Arguments<'_>) -> String {
    String::new()
}

// ---------------------------------------------------------------------------
// Keccak-f[1600] as an uninterpreted function, position-aligned two-run memo
// ---------------------------------------------------------------------------

pub const MAXLOG: usize = 40;
const Z: [u64; 25] = [0u64; 25];

/// which run is executing: 0 = run A (record), 1 = run B (replay A's outputs while the
/// permutation inputs coincide, fresh values afterwards), 2 = run C (same against A)
pub static mut RUN: u8 = 0;
pub static mut NA: usize = 0;
pub static mut NB: usize = 0;
pub static mut PRE_A: [[u64; 25]; MAXLOG] = [Z; MAXLOG];
pub static mut OUT_A: [[u64; 25]; MAXLOG] = [Z; MAXLOG];
pub static mut PRE_B: [[u64; 25]; MAXLOG] = [Z; MAXLOG];
pub static mut OUT_B: [[u64; 25]; MAXLOG] = [Z; MAXLOG];
/// index of the first call of run B whose input differs from run A's (MAXLOG = none yet)
pub static mut FIRST_DIFF: usize = MAXLOG;

#[inline(always)]
pub fn st_eq(a: &[u64; 25], b: &[u64; 25]) -> bool {
    // loop-free 200-byte comparison
    ((a[0] ^ b[0])
        | (a[1] ^ b[1])
        | (a[2] ^ b[2])
        | (a[3] ^ b[3])
        | (a[4] ^ b[4])
        | (a[5] ^ b[5])
        | (a[6] ^ b[6])
        | (a[7] ^ b[7])
        | (a[8] ^ b[8])
        | (a[9] ^ b[9])
        | (a[10] ^ b[10])
        | (a[11] ^ b[11])
        | (a[12] ^ b[12])
        | (a[13] ^ b[13])
        | (a[14] ^ b[14])
        | (a[15] ^ b[15])
        | (a[16] ^ b[16])
        | (a[17] ^ b[17])
        | (a[18] ^ b[18])
        | (a[19] ^ b[19])
        | (a[20] ^ b[20])
        | (a[21] ^ b[21])
        | (a[22] ^ b[22])
        | (a[23] ^ b[23])
        | (a[24] ^ b[24]))
        == 0
}

/// Uninterpreted-function model of the permutation.
///
/// Run A: every call returns a fresh arbitrary state (logged).
/// Run B: call k returns A's k-th output as long as every input so far equalled A's
/// (so B is bit-identical to A up to the first differing input, whatever the
/// permutation is); from the first differing input on, outputs are fresh.
/// This over-approximates a true function (unaligned coincidences are not tied),
/// so a universal claim shown under it holds for every permutation.
pub fn f1600_uf(st: &mut [u64; 25]) {
    unsafe {
        if RUN == 0 {
            let k = NA;
            assert!(k < MAXLOG, "permutation log overflow");
            PRE_A[k] = *st;
            let o: [u64; 25] = kani::any();
            OUT_A[k] = o;
            *st = o;
            NA = k + 1;
        } else {
            let k = NB;
            assert!(k < MAXLOG, "permutation log overflow");
            PRE_B[k] = *st;
            if FIRST_DIFF == MAXLOG && k < NA && st_eq(&PRE_A[k], st) {
                *st = OUT_A[k];
            } else {
                if FIRST_DIFF == MAXLOG {
                    FIRST_DIFF = k;
                }
                *st = kani::any();
            }
            OUT_B[k] = *st;
            NB = k + 1;
        }
    }
}

/// Permutation returning fresh arbitrary values and logging nothing: crash-freedom
/// harnesses, where the claim is "for every behaviour of the permutation".
pub fn f1600_any(st: &mut [u64; 25]) {
    *st = kani::any();
}

pub fn uf_reset() {
    unsafe {
        RUN = 0;
        NA = 0;
        NB = 0;
        FIRST_DIFF = MAXLOG;
    }
}
pub fn uf_run_b() {
    unsafe {
        RUN = 1;
        NB = 0;
        FIRST_DIFF = MAXLOG;
    }
}
pub fn uf_same_inputs() -> bool {
    unsafe { FIRST_DIFF == MAXLOG && NA == NB }
}

pub fn le_bytes(st: &[u64; 25], i: usize) -> u8 {
    (st[i / 8] >> (8 * (i % 8))) as u8
}

// ---------------------------------------------------------------------------
// OS randomness
// ---------------------------------------------------------------------------

pub static mut OS_DRAWS: usize = 0;
pub static mut OS_LAST: [u64; 3] = [0; 3];
pub static mut OS_K: usize = 0;

/// `<OsRng as RngCore>::next_u64`: arbitrary value, counted.
pub fn osrng_next_u64(_r: &mut rand::rngs::OsRng) -> u64 {
    let v: u64 = kani::any();
    unsafe {
        OS_LAST[OS_K % 3] = v;
        OS_K += 1;
        OS_DRAWS += 1;
    }
    v
}
pub fn osrng_next_u32(_r: &mut rand::rngs::OsRng) -> u32 {
    unsafe {
        OS_DRAWS += 1;
    }
    kani::any()
}

// ---------------------------------------------------------------------------
// Fp::random: one pass of the rejection loop, conditioned on acceptance
// ---------------------------------------------------------------------------

pub const P_LIMBS: [u64; 3] = [12451, 0, 1];

pub fn limbs_lt_p(l: &[u64; 3]) -> bool {
    l[2] == 0 || (l[2] == 1 && l[1] == 0 && l[0] < 12451)
}

pub fn fp_from_limbs(l: [u64; 3]) -> Fp {
    // Fp is a `#[repr(Rust)]` tuple struct around [u64; 3]; size checked by the
    // repository's own `element_length` test and by `c07` harness `fp_layout`.
    unsafe { core::mem::transmute::<[u64; 3], Fp>(l) }
}
pub fn fp_limbs(f: &Fp) -> [u64; 3] {
    unsafe { core::mem::transmute::<Fp, [u64; 3]>(*f) }
}

pub static mut FP_RANDOM_CALLS: usize = 0;
pub static mut FP_RANDOM_LOG: [[u64; 3]; 8] = [[0; 3]; 8];

/// `<Fp as ff::Field>::random`: draws three `next_u64` from the supplied source,
/// masks the top limb exactly like the derived code, and *assumes* the candidate is
/// accepted (the unbounded retry loop is outside the claim).
pub fn fp_random_one_pass<R: rand_core::RngCore>(mut rng: R) -> Fp {
    let mut l = [0u64; 3];
    l[0] = rng.next_u64();
    l[1] = rng.next_u64();
    l[2] = rng.next_u64();
    l[2] &= 0xffff_ffff_ffff_ffffu64 >> 63;
    kani::assume(limbs_lt_p(&l));
    unsafe {
        if FP_RANDOM_CALLS < 8 {
            FP_RANDOM_LOG[FP_RANDOM_CALLS] = l;
        }
        FP_RANDOM_CALLS += 1;
    }
    fp_from_limbs(l)
}

// ---------------------------------------------------------------------------
// Fp byte conversion replaced by the specification C07 proves for it
// ---------------------------------------------------------------------------

/// `<Fp as PrimeField>::from_repr` by its C07-proved specification: accepts exactly
/// the little-endian encodings of integers below p.  The Montgomery conversion is
/// abstracted to the identity on limbs (any bijection onto valid limb triples gives
/// the same verdict for code that only copies/compares elements).
pub fn fp_from_repr_spec(r: star_sharks::FpRepr) -> subtle::CtOption<Fp> {
    let b = r.0;
    let l = [
        u64::from_le_bytes([b[0], b[1], b[2], b[3], b[4], b[5], b[6], b[7]]),
        u64::from_le_bytes([b[8], b[9], b[10], b[11], b[12], b[13], b[14], b[15]]),
        u64::from_le_bytes([b[16], b[17], b[18], b[19], b[20], b[21], b[22], b[23]]),
    ];
    let ok = limbs_lt_p(&l);
    subtle::CtOption::new(fp_from_limbs(l), subtle::Choice::from(ok as u8))
}

/// `<Fp as PrimeField>::to_repr`, inverse of `fp_from_repr_spec`.
pub fn fp_to_repr_spec(f: &Fp) -> star_sharks::FpRepr {
    let l = fp_limbs(f);
    let a = l[0].to_le_bytes();
    let b = l[1].to_le_bytes();
    let c = l[2].to_le_bytes();
    star_sharks::FpRepr([
        a[0], a[1], a[2], a[3], a[4], a[5], a[6], a[7], b[0], b[1], b[2], b[3], b[4], b[5], b[6],
        b[7], c[0], c[1], c[2], c[3], c[4], c[5], c[6], c[7],
    ])
}

/// `<Vec<u8> as Zeroize>::zeroize`: erasure loops over contents and spare capacity;
/// irrelevant to every property here, and their trip count is a symbolic length.
pub fn vec_zeroize_noop(_v: &mut Vec<u8>) {}

// Drop impls of the repository's own types only zeroise memory (derived
// `ZeroizeOnDrop` / explicit `zeroize()` calls); erasure is not part of any property
// here and its loops run over symbolic lengths, so they are cut.
pub fn drop_noop_star_share(_s: &mut sta_rs::Share) {}
pub fn drop_noop_access(_s: &mut adss::AccessStructure) {}
pub fn drop_noop_commune(_s: &mut adss::Commune) {}
pub fn drop_noop_mg(_s: &mut sta_rs::MessageGenerator) {}
pub fn drop_noop_measurement(_s: &mut sta_rs::SingleMeasurement) {}
