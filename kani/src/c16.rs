//! C16 — ADSS sharing is deterministic up to the share point; recovery rebuilds it.
use crate::stubs::*;

macro_rules! adss_stubs {
    ($(#[$m:meta])* fn $name:ident() $body:block) => {
        #[kani::proof]
        #[kani::stub(keccak::f1600, f1600_ro)]
        #[kani::stub(<byteorder::LittleEndian as byteorder::ByteOrder>::read_u64_into, read_u64_into_25)]
        #[kani::stub(<byteorder::LittleEndian as byteorder::ByteOrder>::write_u64_into, write_u64_into_25)]
        #[kani::stub(zeroize::optimization_barrier, barrier_noop)]
        #[kani::stub(<strobe_rs::Strobe as core::ops::Drop>::drop, strobe_drop_noop)]
        #[kani::stub(<adss::AccessStructure as core::ops::Drop>::drop, drop_noop_access)]
        #[kani::stub(<adss::Commune as core::ops::Drop>::drop, drop_noop_commune)]
        #[kani::stub(<rand::rngs::OsRng as rand_core::RngCore>::next_u64, osrng_next_u64_nz)]
        #[kani::stub(star_sharks::Fp::is_valid, fp_is_valid_assume)]
        #[kani::stub(rand_core::impls::next_u64_via_fill, next_u64_via_fill_counted)]
        #[kani::stub(<star_sharks::Fp as ff::PrimeField>::from_repr, fp_from_repr_spec)]
        #[kani::stub(<star_sharks::Fp as ff::PrimeField>::to_repr, fp_to_repr_spec)]
        #[kani::stub(<star_sharks::Fp as core::ops::MulAssign<&star_sharks::Fp>>::mul_assign, fp_mul_assign_laws)]
        #[kani::stub(<star_sharks::Fp as ff::Field>::invert, fp_invert_laws)]
        $(#[$m])*
        fn $name() $body
    };
}
pub(crate) use adss_stubs;

pub fn u64_at(b: &[u8], o: usize) -> u64 {
    u64::from_le_bytes([b[o], b[o + 1], b[o + 2], b[o + 3], b[o + 4], b[o + 5], b[o + 6], b[o + 7]])
}

/// Two independent `share()` calls on (T, m1, r1) and (T, m2, r2) of the same shape:
/// equal inputs => A, C, D, J and all polynomial coefficients equal, each share has its
/// own OS-drawn point; different inputs => MACs differ.
fn determinism<const ML: usize, const RL: usize, const T: u32, const W: bool>() {
    let m1: [u8; ML] = kani::any();
    let r1: [u8; RL] = kani::any();
    let m2: [u8; ML] = kani::any();
    let r2: [u8; RL] = kani::any();
    ro_reset();
    unsafe {
        FP_RANDOM_CALLS = 0;
        OS_DRAWS = 0;
    }
    let a = adss::Commune::new(T, m1.to_vec(), r1.to_vec(), None).share();
    let n1 = unsafe { FP_RANDOM_CALLS };
    let b = adss::Commune::new(T, m2.to_vec(), r2.to_vec(), None).share();
    let n2 = unsafe { FP_RANDOM_CALLS };
    assert!(a.is_ok() && b.is_ok(), "sharing never fails");
    let sa = a.unwrap().to_bytes();
    let sb = b.unwrap().to_bytes();
    let mut same = true;
    let mut i = 0;
    while i < ML {
        same &= m1[i] == m2[i];
        i += 1;
    }
    let mut i = 0;
    while i < RL {
        same &= r1[i] == r2[i];
        i += 1;
    }
    if W {
        kani::cover!(same, "equal inputs reachable");
        kani::cover!(!same, "different inputs reachable");
    }
    // layout: A(4) | len(4)=48 | x(24) y(24) | len(4) C(ML) | len(4) D(RL) | J(64)
    let total = 4 + 4 + 48 + 4 + ML + 4 + RL + 64;
    assert!(sa.len() == total && sb.len() == total, "encoded share length");
    assert!(n1 == T as usize && n2 == 2 * T as usize, "T-1 coefficient draws + 1 point draw per share");
    assert!(unsafe { OS_DRAWS } == 6, "each share consumes its own 3 OS words");
    let xa = unsafe { FP_RANDOM_LOG[n1 - 1] };
    let xb = unsafe { FP_RANDOM_LOG[n2 - 1] };
    assert!(u64_at(&sa, 8) == xa[0] && u64_at(&sa, 16) == xa[1] && u64_at(&sa, 24) == xa[2], "x is the share's own OS draw");
    assert!(u64_at(&sb, 8) == xb[0] && u64_at(&sb, 16) == xb[1] && u64_at(&sb, 24) == xb[2], "x is the share's own OS draw");
    let jo = total - 64;
    let j_eq = u64_at(&sa, jo) == u64_at(&sb, jo) && u64_at(&sa, jo + 8) == u64_at(&sb, jo + 8);
    assert!(j_eq == same, "MACs (first 16 bytes) equal iff (M, R) equal");
    if same {
        // everything but x, y is equal
        assert!(u64_at(&sa, 0) == u64_at(&sb, 0), "threshold and S length equal");
        let mut o = 56;
        while o < total {
            assert!(sa[o] == sb[o], "C, D, J and their prefixes equal for equal inputs");
            o += 1;
        }
        let mut i = 0;
        while i + 1 < T as usize {
            let ca = unsafe { FP_RANDOM_LOG[i] };
            let cb = unsafe { FP_RANDOM_LOG[n1 + i] };
            assert!(ca[0] == cb[0] && ca[1] == cb[1] && ca[2] == cb[2], "polynomial coefficients equal");
            i += 1;
        }
    }
    core::mem::forget(sa);
    core::mem::forget(sb);
}
adss_stubs! { #[kani::unwind(10)] fn c16_determinism_m1_r1_t1() { determinism::<1, 1, 1, false>() } }
adss_stubs! { #[kani::unwind(10)] fn c16_determinism_m4_r4_t2() { determinism::<4, 4, 2, false>() } }
adss_stubs! { #[kani::unwind(10)] fn c16_determinism_m0_r0_t1() { determinism::<0, 0, 1, false>() } }
adss_stubs! { #[kani::unwind(10)] fn c16_determinism_m1_r1_t1_w() { determinism::<1, 1, 1, true>() } }

adss_stubs! { #[kani::unwind(10)] fn probe_one_share() {
    let m: [u8; 1] = kani::any();
    ro_reset();
    let a = adss::Commune::new(1, m.to_vec(), m.to_vec(), None).share();
    assert!(a.is_ok());
    core::mem::forget(a);
} }
adss_stubs! { #[kani::unwind(10)] fn probe_one_share_bytes() {
    let m: [u8; 1] = kani::any();
    ro_reset();
    let a = adss::Commune::new(1, m.to_vec(), m.to_vec(), None).share();
    let sa = a.unwrap().to_bytes();
    assert!(sa.len() == 122);
    core::mem::forget(sa);
} }

/// wire round trip and layout of an honestly generated share:
/// A(4 LE) | len(4 LE) x(24) y(24) | len C | len D | J(64), and decode(encode(v)) == v
fn honest_roundtrip(ml: usize, rl: usize, t: u32) {
    let m: [u8; 8] = kani::any();
    let r: [u8; 8] = kani::any();
    ro_reset();
    let sh = adss::Commune::new(t, m[..ml].to_vec(), r[..rl].to_vec(), None).share().unwrap();
    let e = sh.to_bytes();
    let n = 4 + 4 + 48 + 4 + ml + 4 + rl + 64;
    assert!(e.len() == n, "encoded length");
    assert!(u32::from_le_bytes([e[0], e[1], e[2], e[3]]) == t, "4-byte little-endian threshold");
    assert!(u32::from_le_bytes([e[4], e[5], e[6], e[7]]) == 48, "Shamir chunk: x and one y, 24 bytes each");
    assert!(u32::from_le_bytes([e[56], e[57], e[58], e[59]]) as usize == ml, "ciphertext length prefix");
    assert!(u32::from_le_bytes([e[60 + ml], e[61 + ml], e[62 + ml], e[63 + ml]]) as usize == rl, "coins length prefix");
    let back = adss::Share::from_bytes(&e[..]);
    assert!(back.is_some(), "the encoding decodes");
    assert!(back.as_ref().unwrap() == &sh, "decode(encode(v)) == v");
    kani::cover!(true, "reached");
    core::mem::forget((sh, e, back));
}
adss_stubs! { #[kani::unwind(5)] fn c08_honest_roundtrip_1_1() { honest_roundtrip(1, 1, 1) } }
adss_stubs! { #[kani::unwind(5)] fn c08_honest_roundtrip_4_0() { honest_roundtrip(4, 0, 2) } }
