//! Engine K: Kani/CBMC harnesses over the real brave/sta-rs crates (path deps on /repo).
//! One `#[kani::proof]` per obligation; see /verif/DESIGN.md and /verif/run.py.
#![recursion_limit = "512"]
#![allow(unused_imports)]
#![allow(static_mut_refs)]
#![allow(non_snake_case)]
#[cfg(kani)]
pub mod stubs;
#[cfg(kani)]
pub mod c09;
#[cfg(kani)]
pub mod c04;
#[cfg(kani)]
pub mod c16;
#[cfg(kani)]
pub mod c16b;
#[cfg(kani)]
pub mod c03;
#[cfg(kani)]
pub mod c08;
#[cfg(kani)]
pub mod c06;
#[cfg(kani)]
pub mod warmup;
