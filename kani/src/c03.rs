//! C03 / C01 pieces at the sta_rs level: payload encryption, key derivation separation.
use crate::stubs::*;

macro_rules! star_stubs {
    ($(#[$m:meta])* fn $name:ident() $body:block) => {
        #[kani::proof]
        #[kani::stub(keccak::f1600, f1600_ro)]
        #[kani::stub(<byteorder::LittleEndian as byteorder::ByteOrder>::read_u64_into, read_u64_into_25)]
        #[kani::stub(<byteorder::LittleEndian as byteorder::ByteOrder>::write_u64_into, write_u64_into_25)]
        #[kani::stub(zeroize::optimization_barrier, barrier_noop)]
        #[kani::stub(<strobe_rs::Strobe as core::ops::Drop>::drop, strobe_drop_noop)]
        $(#[$m])*
        fn $name() $body
    };
}

/// `Ciphertext::new`: byte i of the ciphertext is payload byte i XOR byte i of the output of
/// the permutation call that absorbed the key (first rate block) — the payload never
/// appears in the clear — and `decrypt` under the same key inverts it.
fn masking(n: usize) {
    let key: [u8; 16] = kani::any();
    let data: [u8; 12] = kani::any();
    ro_reset();
    let c = sta_rs::Ciphertext::new(&key, &data[..n], "star_encrypt");
    assert!(unsafe { RO_N } == 3);
    let cb = c.to_bytes();
    assert!(cb.len() == n, "ciphertext reveals only the payload length");
    let mut i = 0;
    while i < n {
        assert!(cb[i] == data[i] ^ out_byte(2, i), "ciphertext = payload xor keystream(key)");
        i += 1;
    }
    let p = c.decrypt(&key, "star_encrypt");
    assert!(p.len() == n);
    let mut i = 0;
    while i < n {
        assert!(p[i] == data[i], "decrypt inverts encrypt");
        i += 1;
    }
    kani::cover!(true, "reached");
    core::mem::forget((c, cb, p));
}
star_stubs! { #[kani::unwind(5)] fn c03_masking_12() { masking(12) } }
star_stubs! { #[kani::unwind(5)] fn c03_masking_1() { masking(1) } }

/// payload spanning two rate blocks (166-byte rate): every byte is masked, also past the
/// block boundary, and the second block's keystream depends on the first ciphertext block
fn masking_long() {
    let key: [u8; 16] = kani::any();
    let data: [u8; 170] = kani::any();
    ro_reset();
    let c = sta_rs::Ciphertext::new(&key, &data[..], "star_encrypt");
    assert!(unsafe { RO_N } == 4, "a second permutation call for the second block");
    let cb = c.to_bytes();
    assert!(cb.len() == 170);
    let k: usize = kani::any();
    kani::assume(k < 170);
    let ks = if k < 166 { out_byte(2, k) } else { out_byte(3, k - 166) };
    assert!(cb[k] == data[k] ^ ks, "ciphertext = payload xor keystream, in every block");
    kani::cover!(k >= 166, "second block");
    core::mem::forget((c, cb));
}
star_stubs! { #[kani::unwind(5)] fn c03_masking_170() { masking_long() } }

/// two payloads under one key and label: the keystream of the first block is the same
/// (this is what happens for two reports of one measurement, see D7)
fn reuse() {
    let key: [u8; 16] = kani::any();
    let d1: [u8; 6] = kani::any();
    let d2: [u8; 6] = kani::any();
    kani::assume(d1 != d2);
    ro_reset();
    let c1 = sta_rs::Ciphertext::new(&key, &d1, "star_encrypt").to_bytes();
    let c2 = sta_rs::Ciphertext::new(&key, &d2, "star_encrypt").to_bytes();
    let mut all = true;
    let mut i = 0;
    while i < 6 {
        all &= (c1[i] ^ c2[i]) == (d1[i] ^ d2[i]);
        i += 1;
    }
    assert!(!all, "ciphertext difference must not equal plaintext difference");
    core::mem::forget((c1, c2));
}
star_stubs! { #[kani::unwind(5)] fn c03_keystream_reuse() { reuse() } }

/// two payloads of two rate blocks under one key that differ in the first block: beyond
/// the first block (the known finding D7) the keystreams differ, because the duplex state
/// absorbed different ciphertext — so the ciphertext difference is *not* the plaintext
/// difference there.  (Fresh oracle outputs differ within their first 16 bytes: positions
/// 166..182.)
fn reuse_second_block() {
    let key: [u8; 16] = kani::any();
    let d1: [u8; 182] = kani::any();
    let d2: [u8; 182] = kani::any();
    kani::assume(d1[9] != d2[9]);
    ro_reset();
    let c1 = sta_rs::Ciphertext::new(&key, &d1[..], "star_encrypt").to_bytes();
    let c2 = sta_rs::Ciphertext::new(&key, &d2[..], "star_encrypt").to_bytes();
    assert!(c1.len() == 182 && c2.len() == 182);
    let mut all = true;
    let mut i = 166;
    while i < 182 {
        all &= (c1[i] ^ c2[i]) == (d1[i] ^ d2[i]);
        i += 1;
    }
    assert!(!all, "beyond the first rate block the ciphertext difference is not the plaintext difference");
    kani::cover!(true, "reached");
    core::mem::forget((c1, c2));
}
star_stubs! { #[kani::unwind(18)] fn c03_keystream_second_block() { reuse_second_block() } }

/// `derive_ske_key(r, epoch)`: keys are equal iff (r, epoch) are equal — in particular a
/// different epoch never yields the same key
fn ske_sep(e1n: usize, e2n: usize) {
    let r1: [u8; 32] = kani::any();
    let r2: [u8; 32] = kani::any();
    let e1: [u8; 2] = kani::any();
    let e2: [u8; 2] = kani::any();
    ro_reset();
    let mut k1 = [0u8; 16];
    let mut k2 = [0u8; 16];
    sta_rs::derive_ske_key(&r1, &e1[..e1n], &mut k1);
    sta_rs::derive_ske_key(&r2, &e2[..e2n], &mut k2);
    let mut same = e1n == e2n && u128::from_le_bytes(crate::c04::first16(&r1)) == u128::from_le_bytes(crate::c04::first16(&r2))
        && u128::from_le_bytes(crate::c04::last16(&r1)) == u128::from_le_bytes(crate::c04::last16(&r2));
    let mut i = 0;
    while i < e1n && i < e2n {
        same &= e1[i] == e2[i];
        i += 1;
    }
    assert!((u128::from_le_bytes(k1) == u128::from_le_bytes(k2)) == same, "keys equal iff (r, epoch) equal");
    kani::cover!(same, "equal");
    kani::cover!(!same, "different");
}
star_stubs! { #[kani::unwind(5)] fn c04_ske_sep_1_1() { ske_sep(1, 1) } }
star_stubs! { #[kani::unwind(5)] fn c04_ske_sep_0_1() { ske_sep(0, 1) } }
star_stubs! { #[kani::unwind(5)] fn c04_ske_sep_2_1() { ske_sep(2, 1) } }

/// `strobe_digest(key, [ad], label)` with one 1-byte ad (the labelled PRF of
/// `derive_random_values`): outputs equal iff (key, ad) equal
fn digest_sep() {
    let k1: [u8; 32] = kani::any();
    let k2: [u8; 32] = kani::any();
    let a1: u8 = kani::any();
    let a2: u8 = kani::any();
    ro_reset();
    let mut o1 = [0u8; 32];
    let mut o2 = [0u8; 32];
    sta_rs::strobe_digest(&k1, &[&[a1]], "star_derive_randoms", &mut o1);
    sta_rs::strobe_digest(&k2, &[&[a2]], "star_derive_randoms", &mut o2);
    let same = a1 == a2 && u128::from_le_bytes(crate::c04::first16(&k1)) == u128::from_le_bytes(crate::c04::first16(&k2))
        && u128::from_le_bytes(crate::c04::last16(&k1)) == u128::from_le_bytes(crate::c04::last16(&k2));
    let eq = u128::from_le_bytes(crate::c04::first16(&o1)) == u128::from_le_bytes(crate::c04::first16(&o2));
    assert!(eq == same, "labelled PRF outputs equal iff (key, label byte) equal");
    kani::cover!(same, "equal");
    kani::cover!(!same, "different");
}
star_stubs! { #[kani::unwind(5)] fn c04_digest_sep() { digest_sep() } }

/// payload framing of a report: `len|measurement` followed by `len|aux` iff associated data
/// is present; parsing it back yields exactly the measurement and the associated data, and
/// distinguishes absent from empty associated data
fn framing(ml: usize, al: usize, has_aux: bool) {
    let m: [u8; 4] = kani::any();
    let a: [u8; 4] = kani::any();
    let mut data: Vec<u8> = Vec::new();
    sta_rs::store_bytes(&m[..ml], &mut data);
    if has_aux {
        sta_rs::store_bytes(&a[..al], &mut data);
    }
    let got_m = sta_rs::load_bytes(&data);
    assert!(got_m.is_some() && got_m.unwrap().len() == ml);
    let mut i = 0;
    while i < ml {
        assert!(got_m.unwrap()[i] == m[i], "measurement parses back");
        i += 1;
    }
    let rest = &data[4 + ml..];
    if has_aux {
        let got_a = sta_rs::load_bytes(rest);
        assert!(got_a.is_some() && got_a.unwrap().len() == al, "associated data (also empty) parses back");
        let mut i = 0;
        while i < al {
            assert!(got_a.unwrap()[i] == a[i]);
            i += 1;
        }
        assert!(rest.len() == 4 + al, "nothing else follows");
    } else {
        assert!(rest.is_empty() && sta_rs::load_bytes(rest).is_none(), "absence of associated data is distinguishable from empty data");
    }
    kani::cover!(true, "reached");
    core::mem::forget(data);
}
#[kani::proof]
#[kani::unwind(5)]
fn c01_framing_3_2() { framing(3, 2, true) }
#[kani::proof]
#[kani::unwind(5)]
fn c01_framing_0_0() { framing(0, 0, true) }
#[kani::proof]
#[kani::unwind(5)]
fn c01_framing_3_none() { framing(3, 0, false) }

// ---------------------------------------------------------------------------
// C01: the payload the real `Message::generate` hands to the cipher
// ---------------------------------------------------------------------------
// `derive_random_values`, `derive_key`, `share` (decided elsewhere: C04, C16) return arbitrary
// values; `Ciphertext::new` (decided by c03_masking / c01_cipher round trip) records the
// plaintext it is given.  What remains is generate's own framing code.
pub static mut GEN_PT: [u8; 24] = [0u8; 24];
pub static mut GEN_PT_LEN: usize = 0x5EED_0301;
pub static mut GEN_KEY: [u8; 16] = [0u8; 16];
pub static mut GEN_KEY_USED: [u8; 16] = [0u8; 16];

pub fn mg_derive_random_values_any(_s: &sta_rs::MessageGenerator, _r: &[u8]) -> Vec<[u8; 32]> {
    let a: [u8; 32] = kani::any();
    let b: [u8; 32] = kani::any();
    let c: [u8; 32] = kani::any();
    vec![a, b, c]
}
pub fn mg_derive_key_any(_s: &sta_rs::MessageGenerator, _r1: &[u8]) -> [u8; 16] {
    let k: [u8; 16] = kani::any();
    unsafe { GEN_KEY = k; }
    k
}
pub fn mg_share_fixed(
    _s: &sta_rs::MessageGenerator,
    _r1: &[u8],
    _r2: &[u8],
) -> Result<sta_rs::Share, Box<dyn std::error::Error>> {
    let mut xb = [0u8; 24];
    xb[0] = 1;
    let s = star_sharks::Share::try_from(&xb[..]).unwrap();
    let a = adss::Share::verif_from_parts(2, s, Vec::new(), Vec::new(), [0u8; 64]);
    // sta_rs::Share is a private newtype around adss::Share; its content is irrelevant here
    Ok(unsafe { core::mem::transmute::<adss::Share, sta_rs::Share>(a) })
}
pub fn ciphertext_new_record(key: &[u8], data: &[u8], _label: &str) -> sta_rs::Ciphertext {
    unsafe {
        GEN_PT_LEN = data.len();
        let mut i = 0;
        while i < 24 {
            if i < data.len() {
                GEN_PT[i] = data[i];
            }
            i += 1;
        }
        let mut i = 0;
        while i < 16 {
            if i < key.len() {
                GEN_KEY_USED[i] = key[i];
            }
            i += 1;
        }
    }
    sta_rs::Ciphertext::from_bytes(&[0u8; 1])
}

fn generate_framing(ml: usize, al: usize, has_aux: bool) {
    let m: [u8; 4] = kani::any();
    let a: [u8; 4] = kani::any();
    let e: [u8; 2] = kani::any();
    let t: u32 = kani::any();
    let rnd: [u8; 32] = kani::any();
    let mg = sta_rs::MessageGenerator::new(sta_rs::SingleMeasurement::new(&m[..ml]), t, &e);
    let aux = if has_aux { Some(sta_rs::AssociatedData::new(&a[..al])) } else { None };
    let msg = sta_rs::Message::generate(&mg, &rnd, aux);
    assert!(msg.is_ok());
    let want_len = 4 + ml + if has_aux { 4 + al } else { 0 };
    let (pt, n) = unsafe { (GEN_PT, GEN_PT_LEN) };
    assert!(n == want_len, "payload is len|measurement followed by len|aux iff associated data was supplied (also when it is empty)");
    assert!(pt[0] == ml as u8 && pt[1] == 0 && pt[2] == 0 && pt[3] == 0);
    let mut i = 0;
    while i < ml {
        assert!(pt[4 + i] == m[i], "measurement bytes in the payload");
        i += 1;
    }
    if has_aux {
        let o = 4 + ml;
        assert!(pt[o] == al as u8 && pt[o + 1] == 0 && pt[o + 2] == 0 && pt[o + 3] == 0);
        let mut i = 0;
        while i < al {
            assert!(pt[o + 4 + i] == a[i], "associated data bytes in the payload");
            i += 1;
        }
    }
    let (k1, k2) = unsafe { (GEN_KEY, GEN_KEY_USED) };
    let mut i = 0;
    while i < 16 {
        assert!(k1[i] == k2[i], "the payload is encrypted under the derived key");
        i += 1;
    }
    kani::cover!(true, "reached");
    core::mem::forget(msg);
    core::mem::forget(mg);
}
macro_rules! gen_stubs {
    ($(#[$m:meta])* fn $name:ident() $body:block) => {
        #[kani::proof]
        #[kani::stub(sta_rs::MessageGenerator::derive_random_values, mg_derive_random_values_any)]
        #[kani::stub(sta_rs::MessageGenerator::derive_key, mg_derive_key_any)]
        #[kani::stub(sta_rs::MessageGenerator::share, mg_share_fixed)]
        #[kani::stub(sta_rs::Ciphertext::new, ciphertext_new_record)]
        #[kani::stub(zeroize::optimization_barrier, barrier_noop)]
        #[kani::stub(<sta_rs::Share as core::ops::Drop>::drop, drop_noop_star_share)]
        #[kani::stub(<adss::AccessStructure as core::ops::Drop>::drop, drop_noop_access)]
        #[kani::stub(<sta_rs::MessageGenerator as core::ops::Drop>::drop, drop_noop_mg)]
        #[kani::stub(<sta_rs::SingleMeasurement as core::ops::Drop>::drop, drop_noop_measurement)]
        $(#[$m])*
        fn $name() $body
    };
}
gen_stubs! { #[kani::unwind(26)] fn c01_generate_3_2() { generate_framing(3, 2, true) } }
gen_stubs! { #[kani::unwind(26)] fn c01_generate_3_empty() { generate_framing(3, 0, true) } }
gen_stubs! { #[kani::unwind(26)] fn c01_generate_3_none() { generate_framing(3, 0, false) } }
gen_stubs! { #[kani::unwind(26)] fn c01_generate_0_none() { generate_framing(0, 0, false) } }

// ---------------------------------------------------------------------------
// C01: the key a client encrypts under is the key the aggregation side re-derives
// ---------------------------------------------------------------------------
// `derive_random_values` returns arbitrary (r0, r1, r2) and records r0; the real `derive_key`
// runs (real Strobe, permutation = random oracle); `share` records the secret it is given and
// `Ciphertext::new` the key it is given.  Server side: `derive_ske_key(r0, epoch)` on the same
// oracle.  Epoch bytes are arbitrary (not only UTF-8 text).
pub static mut GEN_R0: [u8; 32] = [0u8; 32];
pub static mut GEN_SHARED: [u8; 32] = [0u8; 32];
pub static mut GEN_SHARED_LEN: usize = 0x5EED_0303;

pub fn mg_derive_random_values_rec(_s: &sta_rs::MessageGenerator, _r: &[u8]) -> Vec<[u8; 32]> {
    let a: [u8; 32] = kani::any();
    let b: [u8; 32] = kani::any();
    let c: [u8; 32] = kani::any();
    unsafe { GEN_R0 = a; }
    vec![a, b, c]
}
pub fn mg_share_rec(
    s: &sta_rs::MessageGenerator,
    r1: &[u8],
    r2: &[u8],
) -> Result<sta_rs::Share, Box<dyn std::error::Error>> {
    unsafe {
        GEN_SHARED_LEN = r1.len();
        if r1.len() == 32 {
            GEN_SHARED.copy_from_slice(r1);
        }
    }
    mg_share_fixed(s, r1, r2)
}

fn key_agreement(en: usize) {
    let m: [u8; 2] = kani::any();
    let e: [u8; 2] = kani::any();
    let t: u32 = kani::any();
    let rnd: [u8; 32] = kani::any();
    ro_reset();
    let mg = sta_rs::MessageGenerator::new(sta_rs::SingleMeasurement::new(&m), t, &e[..en]);
    let msg = sta_rs::Message::generate(&mg, &rnd, None);
    assert!(msg.is_ok());
    let (r0, shared, sl, used) = unsafe { (GEN_R0, GEN_SHARED, GEN_SHARED_LEN, GEN_KEY_USED) };
    assert!(sl == 32, "the secret handed to the sharing layer is 32 bytes");
    assert!(u128::from_le_bytes(crate::c04::first16(&shared)) == u128::from_le_bytes(crate::c04::first16(&r0))
        && u128::from_le_bytes(crate::c04::last16(&shared)) == u128::from_le_bytes(crate::c04::last16(&r0)),
        "the value that is secret-shared is the value the payload key is derived from");
    let mut k = [0u8; 16];
    sta_rs::derive_ske_key(&r0, &e[..en], &mut k);
    assert!(u128::from_le_bytes(k) == u128::from_le_bytes(used),
        "the aggregation side's derive_ske_key(recovered value, epoch) is the key the client encrypted under, for every epoch byte string");
    kani::cover!(true, "reached");
    kani::cover!(en > 0 && e[0] >= 0x80, "epoch that is not UTF-8 text");
    core::mem::forget(msg);
    core::mem::forget(mg);
}
macro_rules! agree_stubs {
    ($(#[$m:meta])* fn $name:ident() $body:block) => {
        #[kani::proof]
        #[kani::stub(keccak::f1600, f1600_ro)]
        #[kani::stub(<byteorder::LittleEndian as byteorder::ByteOrder>::read_u64_into, read_u64_into_25)]
        #[kani::stub(<byteorder::LittleEndian as byteorder::ByteOrder>::write_u64_into, write_u64_into_25)]
        #[kani::stub(<strobe_rs::Strobe as core::ops::Drop>::drop, strobe_drop_noop)]
        #[kani::stub(<star_sharks::Fp as ff::PrimeField>::from_repr, fp_from_repr_spec)]
        #[kani::stub(sta_rs::MessageGenerator::derive_random_values, mg_derive_random_values_rec)]
        #[kani::stub(sta_rs::MessageGenerator::share, mg_share_rec)]
        #[kani::stub(sta_rs::Ciphertext::new, ciphertext_new_record)]
        #[kani::stub(zeroize::optimization_barrier, barrier_noop)]
        #[kani::stub(<sta_rs::Share as core::ops::Drop>::drop, drop_noop_star_share)]
        #[kani::stub(<adss::AccessStructure as core::ops::Drop>::drop, drop_noop_access)]
        #[kani::stub(<sta_rs::MessageGenerator as core::ops::Drop>::drop, drop_noop_mg)]
        #[kani::stub(<sta_rs::SingleMeasurement as core::ops::Drop>::drop, drop_noop_measurement)]
        $(#[$m])*
        fn $name() $body
    };
}
agree_stubs! { #[kani::unwind(26)] fn c01_key_agreement_e2() { key_agreement(2) } }
agree_stubs! { #[kani::unwind(26)] fn c01_key_agreement_e1() { key_agreement(1) } }
agree_stubs! { #[kani::unwind(26)] fn c01_key_agreement_e0() { key_agreement(0) } }
