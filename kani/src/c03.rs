//! C03 / C01 pieces at the sta_rs level: payload encryption, key derivation separation.
use crate::stubs::*;

macro_rules! star_stubs {
    ($(#[$m:meta])* fn $name:ident() $body:block) => {
        #[kani::proof]
        #[kani::stub(keccak::f1600, f1600_ro)]
        #[kani::stub(<byteorder::LittleEndian as byteorder::ByteOrder>::read_u64_into, read_u64_into_25)]
        #[kani::stub(<byteorder::LittleEndian as byteorder::ByteOrder>::write_u64_into, write_u64_into_25)]
        #[kani::stub(zeroize::optimization_barrier, barrier_noop)]
        #[kani::stub(<strobe_rs::Strobe as core::ops::Drop>::drop, strobe_drop_noop)]
        $(#[$m])*
        fn $name() $body
    };
}

/// `Ciphertext::new`: byte i of the ciphertext is payload byte i XOR byte i of the output of
/// the permutation call that absorbed the key (first rate block) — the payload never
/// appears in the clear — and `decrypt` under the same key inverts it.
fn masking(n: usize) {
    let key: [u8; 16] = kani::any();
    let data: [u8; 12] = kani::any();
    ro_reset();
    let c = sta_rs::Ciphertext::new(&key, &data[..n], "star_encrypt");
    assert!(unsafe { RO_N } == 3);
    let cb = c.to_bytes();
    assert!(cb.len() == n, "ciphertext reveals only the payload length");
    let mut i = 0;
    while i < n {
        assert!(cb[i] == data[i] ^ out_byte(2, i), "ciphertext = payload xor keystream(key)");
        i += 1;
    }
    let p = c.decrypt(&key, "star_encrypt");
    assert!(p.len() == n);
    let mut i = 0;
    while i < n {
        assert!(p[i] == data[i], "decrypt inverts encrypt");
        i += 1;
    }
    kani::cover!(true, "reached");
    core::mem::forget((c, cb, p));
}
star_stubs! { #[kani::unwind(5)] fn c03_masking_12() { masking(12) } }
star_stubs! { #[kani::unwind(5)] fn c03_masking_1() { masking(1) } }

/// payload spanning two rate blocks (166-byte rate): every byte is masked, also past the
/// block boundary, and the second block's keystream depends on the first ciphertext block
fn masking_long() {
    let key: [u8; 16] = kani::any();
    let data: [u8; 170] = kani::any();
    ro_reset();
    let c = sta_rs::Ciphertext::new(&key, &data[..], "star_encrypt");
    assert!(unsafe { RO_N } == 4, "a second permutation call for the second block");
    let cb = c.to_bytes();
    assert!(cb.len() == 170);
    let k: usize = kani::any();
    kani::assume(k < 170);
    let ks = if k < 166 { out_byte(2, k) } else { out_byte(3, k - 166) };
    assert!(cb[k] == data[k] ^ ks, "ciphertext = payload xor keystream, in every block");
    kani::cover!(k >= 166, "second block");
    core::mem::forget((c, cb));
}
star_stubs! { #[kani::unwind(5)] fn c03_masking_170() { masking_long() } }

/// two payloads under one key and label: the keystream of the first block is the same
/// (this is what happens for two reports of one measurement, see D7)
fn reuse() {
    let key: [u8; 16] = kani::any();
    let d1: [u8; 6] = kani::any();
    let d2: [u8; 6] = kani::any();
    kani::assume(d1 != d2);
    ro_reset();
    let c1 = sta_rs::Ciphertext::new(&key, &d1, "star_encrypt").to_bytes();
    let c2 = sta_rs::Ciphertext::new(&key, &d2, "star_encrypt").to_bytes();
    let mut all = true;
    let mut i = 0;
    while i < 6 {
        all &= (c1[i] ^ c2[i]) == (d1[i] ^ d2[i]);
        i += 1;
    }
    assert!(!all, "ciphertext difference must not equal plaintext difference");
    core::mem::forget((c1, c2));
}
star_stubs! { #[kani::unwind(5)] fn c03_keystream_reuse() { reuse() } }

/// `derive_ske_key(r, epoch)`: keys are equal iff (r, epoch) are equal — in particular a
/// different epoch never yields the same key
fn ske_sep(e1n: usize, e2n: usize) {
    let r1: [u8; 32] = kani::any();
    let r2: [u8; 32] = kani::any();
    let e1: [u8; 2] = kani::any();
    let e2: [u8; 2] = kani::any();
    ro_reset();
    let mut k1 = [0u8; 16];
    let mut k2 = [0u8; 16];
    sta_rs::derive_ske_key(&r1, &e1[..e1n], &mut k1);
    sta_rs::derive_ske_key(&r2, &e2[..e2n], &mut k2);
    let mut same = e1n == e2n && u128::from_le_bytes(crate::c04::first16(&r1)) == u128::from_le_bytes(crate::c04::first16(&r2))
        && u128::from_le_bytes(crate::c04::last16(&r1)) == u128::from_le_bytes(crate::c04::last16(&r2));
    let mut i = 0;
    while i < e1n && i < e2n {
        same &= e1[i] == e2[i];
        i += 1;
    }
    assert!((u128::from_le_bytes(k1) == u128::from_le_bytes(k2)) == same, "keys equal iff (r, epoch) equal");
    kani::cover!(same, "equal");
    kani::cover!(!same, "different");
}
star_stubs! { #[kani::unwind(5)] fn c04_ske_sep_1_1() { ske_sep(1, 1) } }
star_stubs! { #[kani::unwind(5)] fn c04_ske_sep_0_1() { ske_sep(0, 1) } }
star_stubs! { #[kani::unwind(5)] fn c04_ske_sep_2_1() { ske_sep(2, 1) } }

/// `strobe_digest(key, [ad], label)` with one 1-byte ad (the labelled PRF of
/// `derive_random_values`): outputs equal iff (key, ad) equal
fn digest_sep() {
    let k1: [u8; 32] = kani::any();
    let k2: [u8; 32] = kani::any();
    let a1: u8 = kani::any();
    let a2: u8 = kani::any();
    ro_reset();
    let mut o1 = [0u8; 32];
    let mut o2 = [0u8; 32];
    sta_rs::strobe_digest(&k1, &[&[a1]], "star_derive_randoms", &mut o1);
    sta_rs::strobe_digest(&k2, &[&[a2]], "star_derive_randoms", &mut o2);
    let same = a1 == a2 && u128::from_le_bytes(crate::c04::first16(&k1)) == u128::from_le_bytes(crate::c04::first16(&k2))
        && u128::from_le_bytes(crate::c04::last16(&k1)) == u128::from_le_bytes(crate::c04::last16(&k2));
    let eq = u128::from_le_bytes(crate::c04::first16(&o1)) == u128::from_le_bytes(crate::c04::first16(&o2));
    assert!(eq == same, "labelled PRF outputs equal iff (key, label byte) equal");
    kani::cover!(same, "equal");
    kani::cover!(!same, "different");
}
star_stubs! { #[kani::unwind(5)] fn c04_digest_sep() { digest_sep() } }

/// payload framing of a report: `len|measurement` followed by `len|aux` iff associated data
/// is present; parsing it back yields exactly the measurement and the associated data, and
/// distinguishes absent from empty associated data
fn framing(ml: usize, al: usize, has_aux: bool) {
    let m: [u8; 4] = kani::any();
    let a: [u8; 4] = kani::any();
    let mut data: Vec<u8> = Vec::new();
    sta_rs::store_bytes(&m[..ml], &mut data);
    if has_aux {
        sta_rs::store_bytes(&a[..al], &mut data);
    }
    let got_m = sta_rs::load_bytes(&data);
    assert!(got_m.is_some() && got_m.unwrap().len() == ml);
    let mut i = 0;
    while i < ml {
        assert!(got_m.unwrap()[i] == m[i], "measurement parses back");
        i += 1;
    }
    let rest = &data[4 + ml..];
    if has_aux {
        let got_a = sta_rs::load_bytes(rest);
        assert!(got_a.is_some() && got_a.unwrap().len() == al, "associated data (also empty) parses back");
        let mut i = 0;
        while i < al {
            assert!(got_a.unwrap()[i] == a[i]);
            i += 1;
        }
        assert!(rest.len() == 4 + al, "nothing else follows");
    } else {
        assert!(rest.is_empty() && sta_rs::load_bytes(rest).is_none(), "absence of associated data is distinguishable from empty data");
    }
    kani::cover!(true, "reached");
    core::mem::forget(data);
}
#[kani::proof]
#[kani::unwind(5)]
fn c01_framing_3_2() { framing(3, 2, true) }
#[kani::proof]
#[kani::unwind(5)]
fn c01_framing_0_0() { framing(0, 0, true) }
#[kani::proof]
#[kani::unwind(5)]
fn c01_framing_3_none() { framing(3, 0, false) }
