//! C04 — tags and keys are a function of exactly (measurement, epoch, threshold).
//! First-difference argument over the permutation-input log (DESIGN.md §2.1).
use crate::stubs::*;
use sta_rs::{MessageGenerator, SingleMeasurement};

macro_rules! strobe_stubs {
    ($(#[$m:meta])* fn $name:ident() $body:block) => {
        #[kani::proof]
        #[kani::stub(keccak::f1600, f1600_ro)]
        #[kani::stub(<byteorder::LittleEndian as byteorder::ByteOrder>::read_u64_into, read_u64_into_25)]
        #[kani::stub(<byteorder::LittleEndian as byteorder::ByteOrder>::write_u64_into, write_u64_into_25)]
        #[kani::stub(zeroize::optimization_barrier, barrier_noop)]
        #[kani::stub(<strobe_rs::Strobe as core::ops::Drop>::drop, strobe_drop_noop)]
        #[kani::stub(<sta_rs::MessageGenerator as core::ops::Drop>::drop, drop_noop_mg)]
        #[kani::stub(<sta_rs::SingleMeasurement as core::ops::Drop>::drop, drop_noop_measurement)]
        $(#[$m])*
        fn $name() $body
    };
}

/// Two triples of the given component lengths: `sample_local_randomness` yields equal
/// randomness iff the triples are equal (collision-free ideal-permutation model).
fn inject<const M1: usize, const E1: usize, const M2: usize, const E2: usize, const W: bool>() {
    let m1: [u8; M1] = kani::any();
    let e1: [u8; E1] = kani::any();
    let t1: u32 = kani::any();
    let m2: [u8; M2] = kani::any();
    let e2: [u8; E2] = kani::any();
    let t2: u32 = kani::any();
    // the caller's output buffers hold arbitrary earlier content: the randomness must be
    // a function of the triple alone
    let i1: [u8; 32] = kani::any();
    let i2: [u8; 32] = kani::any();
    ro_reset();
    let mg1 = MessageGenerator::new(SingleMeasurement::new(&m1), t1, &e1);
    let mut r1 = i1;
    mg1.sample_local_randomness(&mut r1);
    let mg2 = MessageGenerator::new(SingleMeasurement::new(&m2), t2, &e2);
    let mut r2 = i2;
    mg2.sample_local_randomness(&mut r2);
    let mut same = M1 == M2 && E1 == E2 && t1 == t2;
    if M1 == M2 && E1 == E2 {
        let mut i = 0;
        while i < M1 {
            same &= m1[i] == m2[i];
            i += 1;
        }
        let mut i = 0;
        while i < E1 {
            same &= e1[i] == e2[i];
            i += 1;
        }
    }
    if W {
        kani::cover!(same, "equal triples reachable");
        kani::cover!(!same, "different triples reachable");
    }
    let eq16 = u128::from_le_bytes(first16(&r1)) == u128::from_le_bytes(first16(&r2));
    let eq32 = eq16 && u128::from_le_bytes(last16(&r1)) == u128::from_le_bytes(last16(&r2));
    assert!(eq16 == same, "randomness (first 16 bytes) equal iff triples equal");
    assert!(eq32 == same, "randomness equal iff triples equal");
    core::mem::forget(mg1);
    core::mem::forget(mg2);
}

pub fn first16(r: &[u8; 32]) -> [u8; 16] {
    [r[0], r[1], r[2], r[3], r[4], r[5], r[6], r[7], r[8], r[9], r[10], r[11], r[12], r[13], r[14], r[15]]
}
pub fn last16(r: &[u8; 32]) -> [u8; 16] {
    [r[16], r[17], r[18], r[19], r[20], r[21], r[22], r[23], r[24], r[25], r[26], r[27], r[28], r[29], r[30], r[31]]
}

strobe_stubs! { #[kani::unwind(34)] fn c04_inject_0_0_0_0() { inject::<0, 0, 0, 0, false>() } }
strobe_stubs! { #[kani::unwind(34)] fn c04_inject_0_0_0_1() { inject::<0, 0, 0, 1, false>() } }
strobe_stubs! { #[kani::unwind(34)] fn c04_inject_0_0_0_2() { inject::<0, 0, 0, 2, false>() } }
strobe_stubs! { #[kani::unwind(34)] fn c04_inject_0_0_1_0() { inject::<0, 0, 1, 0, false>() } }
strobe_stubs! { #[kani::unwind(34)] fn c04_inject_0_0_1_1() { inject::<0, 0, 1, 1, false>() } }
strobe_stubs! { #[kani::unwind(34)] fn c04_inject_0_0_1_2() { inject::<0, 0, 1, 2, false>() } }
strobe_stubs! { #[kani::unwind(34)] fn c04_inject_0_0_2_0() { inject::<0, 0, 2, 0, false>() } }
strobe_stubs! { #[kani::unwind(34)] fn c04_inject_0_0_2_1() { inject::<0, 0, 2, 1, false>() } }
strobe_stubs! { #[kani::unwind(34)] fn c04_inject_0_0_2_2() { inject::<0, 0, 2, 2, false>() } }
strobe_stubs! { #[kani::unwind(34)] fn c04_inject_0_1_0_0() { inject::<0, 1, 0, 0, false>() } }
strobe_stubs! { #[kani::unwind(34)] fn c04_inject_0_1_0_1() { inject::<0, 1, 0, 1, false>() } }
strobe_stubs! { #[kani::unwind(34)] fn c04_inject_0_1_0_2() { inject::<0, 1, 0, 2, false>() } }
strobe_stubs! { #[kani::unwind(34)] fn c04_inject_0_1_1_0() { inject::<0, 1, 1, 0, false>() } }
strobe_stubs! { #[kani::unwind(34)] fn c04_inject_0_1_1_1() { inject::<0, 1, 1, 1, false>() } }
strobe_stubs! { #[kani::unwind(34)] fn c04_inject_0_1_1_2() { inject::<0, 1, 1, 2, false>() } }
strobe_stubs! { #[kani::unwind(34)] fn c04_inject_0_1_2_0() { inject::<0, 1, 2, 0, false>() } }
strobe_stubs! { #[kani::unwind(34)] fn c04_inject_0_1_2_1() { inject::<0, 1, 2, 1, false>() } }
strobe_stubs! { #[kani::unwind(34)] fn c04_inject_0_1_2_2() { inject::<0, 1, 2, 2, false>() } }
strobe_stubs! { #[kani::unwind(34)] fn c04_inject_0_2_0_0() { inject::<0, 2, 0, 0, false>() } }
strobe_stubs! { #[kani::unwind(34)] fn c04_inject_0_2_0_1() { inject::<0, 2, 0, 1, false>() } }
strobe_stubs! { #[kani::unwind(34)] fn c04_inject_0_2_0_2() { inject::<0, 2, 0, 2, false>() } }
strobe_stubs! { #[kani::unwind(34)] fn c04_inject_0_2_1_0() { inject::<0, 2, 1, 0, false>() } }
strobe_stubs! { #[kani::unwind(34)] fn c04_inject_0_2_1_1() { inject::<0, 2, 1, 1, false>() } }
strobe_stubs! { #[kani::unwind(34)] fn c04_inject_0_2_1_2() { inject::<0, 2, 1, 2, false>() } }
strobe_stubs! { #[kani::unwind(34)] fn c04_inject_0_2_2_0() { inject::<0, 2, 2, 0, false>() } }
strobe_stubs! { #[kani::unwind(34)] fn c04_inject_0_2_2_1() { inject::<0, 2, 2, 1, false>() } }
strobe_stubs! { #[kani::unwind(34)] fn c04_inject_0_2_2_2() { inject::<0, 2, 2, 2, false>() } }
strobe_stubs! { #[kani::unwind(34)] fn c04_inject_1_0_0_0() { inject::<1, 0, 0, 0, false>() } }
strobe_stubs! { #[kani::unwind(34)] fn c04_inject_1_0_0_1() { inject::<1, 0, 0, 1, false>() } }
strobe_stubs! { #[kani::unwind(34)] fn c04_inject_1_0_0_2() { inject::<1, 0, 0, 2, false>() } }
strobe_stubs! { #[kani::unwind(34)] fn c04_inject_1_0_1_0() { inject::<1, 0, 1, 0, false>() } }
strobe_stubs! { #[kani::unwind(34)] fn c04_inject_1_0_1_1() { inject::<1, 0, 1, 1, false>() } }
strobe_stubs! { #[kani::unwind(34)] fn c04_inject_1_0_1_2() { inject::<1, 0, 1, 2, false>() } }
strobe_stubs! { #[kani::unwind(34)] fn c04_inject_1_0_2_0() { inject::<1, 0, 2, 0, false>() } }
strobe_stubs! { #[kani::unwind(34)] fn c04_inject_1_0_2_1() { inject::<1, 0, 2, 1, false>() } }
strobe_stubs! { #[kani::unwind(34)] fn c04_inject_1_0_2_2() { inject::<1, 0, 2, 2, false>() } }
strobe_stubs! { #[kani::unwind(34)] fn c04_inject_1_1_0_0() { inject::<1, 1, 0, 0, false>() } }
strobe_stubs! { #[kani::unwind(34)] fn c04_inject_1_1_0_1() { inject::<1, 1, 0, 1, false>() } }
strobe_stubs! { #[kani::unwind(34)] fn c04_inject_1_1_0_2() { inject::<1, 1, 0, 2, false>() } }
strobe_stubs! { #[kani::unwind(34)] fn c04_inject_1_1_1_0() { inject::<1, 1, 1, 0, false>() } }
strobe_stubs! { #[kani::unwind(34)] fn c04_inject_1_1_1_1() { inject::<1, 1, 1, 1, false>() } }
strobe_stubs! { #[kani::unwind(34)] fn c04_inject_1_1_1_2() { inject::<1, 1, 1, 2, false>() } }
strobe_stubs! { #[kani::unwind(34)] fn c04_inject_1_1_2_0() { inject::<1, 1, 2, 0, false>() } }
strobe_stubs! { #[kani::unwind(34)] fn c04_inject_1_1_2_1() { inject::<1, 1, 2, 1, false>() } }
strobe_stubs! { #[kani::unwind(34)] fn c04_inject_1_1_2_2() { inject::<1, 1, 2, 2, false>() } }
strobe_stubs! { #[kani::unwind(34)] fn c04_inject_1_2_0_0() { inject::<1, 2, 0, 0, false>() } }
strobe_stubs! { #[kani::unwind(34)] fn c04_inject_1_2_0_1() { inject::<1, 2, 0, 1, false>() } }
strobe_stubs! { #[kani::unwind(34)] fn c04_inject_1_2_0_2() { inject::<1, 2, 0, 2, false>() } }
strobe_stubs! { #[kani::unwind(34)] fn c04_inject_1_2_1_0() { inject::<1, 2, 1, 0, false>() } }
strobe_stubs! { #[kani::unwind(34)] fn c04_inject_1_2_1_1() { inject::<1, 2, 1, 1, false>() } }
strobe_stubs! { #[kani::unwind(34)] fn c04_inject_1_2_1_2() { inject::<1, 2, 1, 2, false>() } }
strobe_stubs! { #[kani::unwind(34)] fn c04_inject_1_2_2_0() { inject::<1, 2, 2, 0, false>() } }
strobe_stubs! { #[kani::unwind(34)] fn c04_inject_1_2_2_1() { inject::<1, 2, 2, 1, false>() } }
strobe_stubs! { #[kani::unwind(34)] fn c04_inject_1_2_2_2() { inject::<1, 2, 2, 2, false>() } }
strobe_stubs! { #[kani::unwind(34)] fn c04_inject_2_0_0_0() { inject::<2, 0, 0, 0, false>() } }
strobe_stubs! { #[kani::unwind(34)] fn c04_inject_2_0_0_1() { inject::<2, 0, 0, 1, false>() } }
strobe_stubs! { #[kani::unwind(34)] fn c04_inject_2_0_0_2() { inject::<2, 0, 0, 2, false>() } }
strobe_stubs! { #[kani::unwind(34)] fn c04_inject_2_0_1_0() { inject::<2, 0, 1, 0, false>() } }
strobe_stubs! { #[kani::unwind(34)] fn c04_inject_2_0_1_1() { inject::<2, 0, 1, 1, false>() } }
strobe_stubs! { #[kani::unwind(34)] fn c04_inject_2_0_1_2() { inject::<2, 0, 1, 2, false>() } }
strobe_stubs! { #[kani::unwind(34)] fn c04_inject_2_0_2_0() { inject::<2, 0, 2, 0, false>() } }
strobe_stubs! { #[kani::unwind(34)] fn c04_inject_2_0_2_1() { inject::<2, 0, 2, 1, false>() } }
strobe_stubs! { #[kani::unwind(34)] fn c04_inject_2_0_2_2() { inject::<2, 0, 2, 2, false>() } }
strobe_stubs! { #[kani::unwind(34)] fn c04_inject_2_1_0_0() { inject::<2, 1, 0, 0, false>() } }
strobe_stubs! { #[kani::unwind(34)] fn c04_inject_2_1_0_1() { inject::<2, 1, 0, 1, false>() } }
strobe_stubs! { #[kani::unwind(34)] fn c04_inject_2_1_0_2() { inject::<2, 1, 0, 2, false>() } }
strobe_stubs! { #[kani::unwind(34)] fn c04_inject_2_1_1_0() { inject::<2, 1, 1, 0, false>() } }
strobe_stubs! { #[kani::unwind(34)] fn c04_inject_2_1_1_1() { inject::<2, 1, 1, 1, false>() } }
strobe_stubs! { #[kani::unwind(34)] fn c04_inject_2_1_1_2() { inject::<2, 1, 1, 2, false>() } }
strobe_stubs! { #[kani::unwind(34)] fn c04_inject_2_1_2_0() { inject::<2, 1, 2, 0, false>() } }
strobe_stubs! { #[kani::unwind(34)] fn c04_inject_2_1_2_1() { inject::<2, 1, 2, 1, false>() } }
strobe_stubs! { #[kani::unwind(34)] fn c04_inject_2_1_2_2() { inject::<2, 1, 2, 2, false>() } }
strobe_stubs! { #[kani::unwind(34)] fn c04_inject_2_2_0_0() { inject::<2, 2, 0, 0, false>() } }
strobe_stubs! { #[kani::unwind(34)] fn c04_inject_2_2_0_1() { inject::<2, 2, 0, 1, false>() } }
strobe_stubs! { #[kani::unwind(34)] fn c04_inject_2_2_0_2() { inject::<2, 2, 0, 2, false>() } }
strobe_stubs! { #[kani::unwind(34)] fn c04_inject_2_2_1_0() { inject::<2, 2, 1, 0, false>() } }
strobe_stubs! { #[kani::unwind(34)] fn c04_inject_2_2_1_1() { inject::<2, 2, 1, 1, false>() } }
strobe_stubs! { #[kani::unwind(34)] fn c04_inject_2_2_1_2() { inject::<2, 2, 1, 2, false>() } }
strobe_stubs! { #[kani::unwind(34)] fn c04_inject_2_2_2_0() { inject::<2, 2, 2, 0, false>() } }
strobe_stubs! { #[kani::unwind(34)] fn c04_inject_2_2_2_1() { inject::<2, 2, 2, 1, false>() } }
strobe_stubs! { #[kani::unwind(34)] fn c04_inject_2_2_2_2() { inject::<2, 2, 2, 2, false>() } }
strobe_stubs! { #[kani::unwind(34)] fn c04_inject_1_1_1_1_w() { inject::<1, 1, 1, 1, true>() } }
strobe_stubs! { #[kani::unwind(34)] fn c04_inject_2_1_1_2_w() { inject::<2, 1, 1, 2, true>() } }
strobe_stubs! { #[kani::unwind(34)] fn c04_inject_0_0_0_0_w() { inject::<0, 0, 0, 0, true>() } }

// ---------------------------------------------------------------------------
// end to end: tag / key / share of two independent clients
// ---------------------------------------------------------------------------

macro_rules! share_stubs {
    ($(#[$m:meta])* fn $name:ident() $body:block) => {
        #[kani::proof]
        #[kani::stub(keccak::f1600, f1600_ro)]
        #[kani::stub(<byteorder::LittleEndian as byteorder::ByteOrder>::read_u64_into, read_u64_into_25)]
        #[kani::stub(<byteorder::LittleEndian as byteorder::ByteOrder>::write_u64_into, write_u64_into_25)]
        #[kani::stub(zeroize::optimization_barrier, barrier_noop)]
        #[kani::stub(<strobe_rs::Strobe as core::ops::Drop>::drop, strobe_drop_noop)]
        #[kani::stub(<sta_rs::MessageGenerator as core::ops::Drop>::drop, drop_noop_mg)]
        #[kani::stub(<sta_rs::SingleMeasurement as core::ops::Drop>::drop, drop_noop_measurement)]
        #[kani::stub(<sta_rs::Share as core::ops::Drop>::drop, drop_noop_star_share)]
        #[kani::stub(<adss::AccessStructure as core::ops::Drop>::drop, drop_noop_access)]
        #[kani::stub(<adss::Commune as core::ops::Drop>::drop, drop_noop_commune)]
        #[kani::stub(<rand::rngs::OsRng as rand_core::RngCore>::next_u64, osrng_next_u64_nz)]
        #[kani::stub(star_sharks::Fp::is_valid, fp_is_valid_assume)]
        #[kani::stub(rand_core::impls::next_u64_via_fill, next_u64_via_fill_counted)]
        #[kani::stub(<star_sharks::Fp as ff::PrimeField>::from_repr, fp_from_repr_spec)]
        #[kani::stub(<star_sharks::Fp as ff::PrimeField>::to_repr, fp_to_repr_spec)]
        $(#[$m])*
        fn $name() $body
    };
}
pub(crate) use share_stubs;

fn u128_at(b: &[u8], o: usize) -> u128 {
    u128::from_le_bytes([
        b[o], b[o + 1], b[o + 2], b[o + 3], b[o + 4], b[o + 5], b[o + 6], b[o + 7], b[o + 8], b[o + 9],
        b[o + 10], b[o + 11], b[o + 12], b[o + 13], b[o + 14], b[o + 15],
    ])
}
fn u64_at(b: &[u8], o: usize) -> u64 {
    u64::from_le_bytes([b[o], b[o + 1], b[o + 2], b[o + 3], b[o + 4], b[o + 5], b[o + 6], b[o + 7]])
}

/// Two independent clients run `share_with_local_randomness` on triples of the given
/// shape (thresholds concrete): tags equal iff keys equal iff triples equal; for equal
/// triples everything in the share but the evaluation point (and the values at it) is
/// equal, the polynomial coefficients drawn are equal, and each client consumed its
/// own three OS words for its point.
fn e2e<const M1: usize, const E1: usize, const M2: usize, const E2: usize, const T1: u32, const T2: u32, const W: bool>() {
    let m1: [u8; M1] = kani::any();
    let e1: [u8; E1] = kani::any();
    let m2: [u8; M2] = kani::any();
    let e2: [u8; E2] = kani::any();
    ro_reset();
    unsafe {
        FP_RANDOM_CALLS = 0;
        OS_DRAWS = 0;
    }
    let mg1 = MessageGenerator::new(SingleMeasurement::new(&m1), T1, &e1);
    let a = mg1.share_with_local_randomness();
    let n1 = unsafe { FP_RANDOM_CALLS };
    let os1 = unsafe { OS_DRAWS };
    let mg2 = MessageGenerator::new(SingleMeasurement::new(&m2), T2, &e2);
    let b = mg2.share_with_local_randomness();
    let n2 = unsafe { FP_RANDOM_CALLS };
    let os2 = unsafe { OS_DRAWS };
    assert!(a.is_ok() && b.is_ok(), "sharing never fails");
    let a = a.unwrap();
    let b = b.unwrap();
    let mut same = M1 == M2 && E1 == E2 && T1 == T2;
    if M1 == M2 && E1 == E2 {
        let mut i = 0;
        while i < M1 {
            same &= m1[i] == m2[i];
            i += 1;
        }
        let mut i = 0;
        while i < E1 {
            same &= e1[i] == e2[i];
            i += 1;
        }
    }
    if W {
        kani::cover!(same, "equal triples reachable");
        kani::cover!(!same, "different triples reachable");
    }
    let tag_eq16 = u128_at(&a.tag, 0) == u128_at(&b.tag, 0);
    let tag_eq = tag_eq16 && u128_at(&a.tag, 16) == u128_at(&b.tag, 16);
    let key_eq = u128_at(&a.key, 0) == u128_at(&b.key, 0);
    assert!(tag_eq16 == same, "tags (first 16 bytes) equal iff triples equal");
    assert!(tag_eq == same, "tags equal iff triples equal");
    assert!(key_eq == same, "keys equal iff triples equal");
    // one Fp::random per non-constant coefficient plus one for the share point
    assert!(n1 == T1 as usize && n2 - n1 == T2 as usize, "t-1 coefficient draws + 1 point draw");
    // the share point is the client's own OS draw (3 words each)
    assert!(os1 == 3 && os2 == 6, "each share consumes its own OS randomness");
    let sa = a.share.to_bytes();
    let sb = b.share.to_bytes();
    // layout: A(4) | len(4) | x(24) y(24) | len(4) C(32) | len(4) D(32) | J(64)
    assert!(sa.len() == 4 + 4 + 48 + 4 + 32 + 4 + 32 + 64);
    assert!(sb.len() == sa.len());
    // x is exactly the last Fp::random value of that client (its OS draw)
    let xa = unsafe { FP_RANDOM_LOG[n1 - 1] };
    let xb = unsafe { FP_RANDOM_LOG[n2 - 1] };
    assert!(u64_at(&sa, 8) == xa[0] && u64_at(&sa, 16) == xa[1] && u64_at(&sa, 24) == xa[2]);
    assert!(u64_at(&sb, 8) == xb[0] && u64_at(&sb, 16) == xb[1] && u64_at(&sb, 24) == xb[2]);
    if same {
        // identical: threshold, lengths, C, D, J
        assert!(u64_at(&sa, 0) == u64_at(&sb, 0));
        let mut o = 56;
        while o < 200 {
            assert!(u64_at(&sa, o) == u64_at(&sb, o), "C, D, J equal for equal triples");
            o += 8;
        }
        // identical polynomial coefficients (T-1 draws each)
        let mut i = 0;
        while i + 1 < T1 as usize {
            let ca = unsafe { FP_RANDOM_LOG[i] };
            let cb = unsafe { FP_RANDOM_LOG[n1 + i] };
            assert!(ca[0] == cb[0] && ca[1] == cb[1] && ca[2] == cb[2], "coefficients equal");
            i += 1;
        }
    }
    core::mem::forget(mg1);
    core::mem::forget(mg2);
    core::mem::forget(a);
    core::mem::forget(b);
    core::mem::forget(sa);
    core::mem::forget(sb);
}
share_stubs! { #[kani::unwind(10)] fn c04_e2e_1_1_1_1_t1_t1() { e2e::<1, 1, 1, 1, 1, 1, false>() } }
share_stubs! { #[kani::unwind(10)] fn c04_e2e_1_1_1_1_t2_t2() { e2e::<1, 1, 1, 1, 2, 2, false>() } }
share_stubs! { #[kani::unwind(10)] fn c04_e2e_1_1_1_1_t1_t2() { e2e::<1, 1, 1, 1, 1, 2, false>() } }
share_stubs! { #[kani::unwind(10)] fn c04_e2e_2_1_1_2_t1_t1() { e2e::<2, 1, 1, 2, 1, 1, false>() } }
share_stubs! { #[kani::unwind(10)] fn c04_e2e_1_1_1_1_t2_t2_w() { e2e::<1, 1, 1, 1, 2, 2, true>() } }

// probes (temporary)
share_stubs! { #[kani::unwind(10)] fn probe_two_shares() {
    let m: [u8; 4] = kani::any();
    ro_reset();
    let a = adss::Commune::new(1, m.to_vec(), m.to_vec(), None).share();
    let n1 = unsafe { RO_N };
    let b = adss::Commune::new(1, m.to_vec(), m.to_vec(), None).share();
    let n2 = unsafe { RO_N };
    assert!(n1 == 8 && n2 == 16);
    core::mem::forget(a);
    core::mem::forget(b);
} }
