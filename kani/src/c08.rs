//! C08 — wire encodings round-trip and reject malformed input, against an
//! independent parser of the documented layout written here (no repository code).
use crate::stubs::*;
use core::convert::TryFrom;

macro_rules! dec_stubs {
    ($(#[$m:meta])* fn $name:ident() $body:block) => {
        #[kani::proof]
        #[kani::stub(zeroize::optimization_barrier, barrier_noop)]
        #[kani::stub(<star_sharks::Fp as ff::PrimeField>::from_repr, fp_from_repr_spec)]
        #[kani::stub(<star_sharks::Fp as ff::PrimeField>::to_repr, fp_to_repr_spec)]
        #[kani::stub(<sta_rs::Share as core::ops::Drop>::drop, drop_noop_star_share)]
        #[kani::stub(<adss::AccessStructure as core::ops::Drop>::drop, drop_noop_access)]
        $(#[$m])*
        fn $name() $body
    };
}

// ---------------------------------------------------------------------------
// reference parser of the documented layout
// ---------------------------------------------------------------------------
fn le32(b: &[u8], o: usize) -> usize {
    (b[o] as usize) | ((b[o + 1] as usize) << 8) | ((b[o + 2] as usize) << 16) | ((b[o + 3] as usize) << 24)
}
/// canonical little-endian field element: integer < 2^128 + 12451
fn elem_ok(b: &[u8], o: usize) -> bool {
    let l0 = u64::from_le_bytes([b[o], b[o + 1], b[o + 2], b[o + 3], b[o + 4], b[o + 5], b[o + 6], b[o + 7]]);
    let l1 = u64::from_le_bytes([b[o + 8], b[o + 9], b[o + 10], b[o + 11], b[o + 12], b[o + 13], b[o + 14], b[o + 15]]);
    let l2 = u64::from_le_bytes([b[o + 16], b[o + 17], b[o + 18], b[o + 19], b[o + 20], b[o + 21], b[o + 22], b[o + 23]]);
    l2 == 0 || (l2 == 1 && l1 == 0 && l0 < 12451)
}
/// chunk at offset o of b[..end]: (data offset, data length) or None
fn chunk(b: &[u8], o: usize, end: usize) -> Option<(usize, usize)> {
    if end < o || end - o < 4 {
        return None;
    }
    let n = le32(b, o);
    if end - o - 4 < n {
        return None;
    }
    Some((o + 4, n))
}

/// Reference for the Shamir part `x | y_1 .. y_k | ignored tail(<24)`: number of
/// elements kept (1 + k) or None
fn ref_sharks(b: &[u8], o: usize, n: usize) -> Option<usize> {
    if n < 24 {
        return None;
    }
    let cnt = n / 24;
    let mut i = 0;
    while i < cnt {
        if !elem_ok(b, o + 24 * i) {
            return None;
        }
        i += 1;
    }
    Some(cnt)
}

/// Reference for an ADSS share inside b[o..end]; writes the canonical re-encoding to
/// `out` and returns its length.
fn ref_share(b: &[u8], o: usize, end: usize, out: &mut [u8]) -> Option<usize> {
    if end < o || end - o < 4 {
        return None;
    }
    let (so, sn) = chunk(b, o + 4, end)?;
    let (co, cn) = chunk(b, so + sn, end)?;
    let (d_o, dn) = chunk(b, co + cn, end)?;
    let jo = d_o + dn;
    if end - jo != 64 {
        return None;
    }
    let cnt = ref_sharks(b, so, sn)?;
    let mut w = 0;
    let mut put = |src: usize, len: usize, w: &mut usize, out: &mut [u8]| {
        let mut i = 0;
        while i < len {
            out[*w] = b[src + i];
            *w += 1;
            i += 1;
        }
    };
    put(o, 4, &mut w, out);
    let sl = (24 * cnt) as u32;
    let slb = sl.to_le_bytes();
    out[w] = slb[0];
    out[w + 1] = slb[1];
    out[w + 2] = slb[2];
    out[w + 3] = slb[3];
    w += 4;
    put(so, 24 * cnt, &mut w, out);
    put(co - 4, 4 + cn, &mut w, out);
    put(d_o - 4, 4 + dn, &mut w, out);
    put(jo, 64, &mut w, out);
    Some(w)
}

// ---------------------------------------------------------------------------
// star_sharks::Share
// ---------------------------------------------------------------------------
fn sharks_vs_ref<const N: usize>() {
    let b: [u8; N] = kani::any();
    let r = star_sharks::Share::try_from(&b[..]);
    let want = ref_sharks(&b, 0, N);
    assert!(r.is_ok() == want.is_some(), "accept/reject agrees with the reference parser");
    if let Ok(s) = &r {
        let cnt = want.unwrap();
        assert!(s.y.len() + 1 == cnt, "number of elements");
        let e: Vec<u8> = Vec::from(s);
        assert!(e.len() == 24 * cnt, "re-encoding drops only the ignored tail");
        let mut i = 0;
        while i < 24 * cnt {
            assert!(e[i] == b[i], "re-encoding is the canonical prefix of the input");
            i += 1;
        }
        // decoding the re-encoding gives an equal value
        let r2 = star_sharks::Share::try_from(&e[..]);
        assert!(r2.is_ok() && r2.as_ref().unwrap() == s, "round trip");
        kani::cover!(true, "accepted");
        core::mem::forget(e);
        core::mem::forget(r2);
    } else {
        kani::cover!(true, "rejected");
    }
    core::mem::forget(r);
}
macro_rules! lens8 {
    ($f:ident, $($name:ident = $n:expr),* $(,)?) => {
        $( dec_stubs! { #[kani::unwind(5)] fn $name() { $f::<$n>() } } )*
    };
}
lens8!(sharks_vs_ref, c08_sharks_23 = 23, c08_sharks_24 = 24, c08_sharks_47 = 47, c08_sharks_48 = 48,
       c08_sharks_50 = 50, c08_sharks_72 = 72);

// ---------------------------------------------------------------------------
// adss::Share / sta_rs::Share
// ---------------------------------------------------------------------------
fn share_vs_ref<const N: usize>() {
    let b: [u8; N] = kani::any();
    let r = sta_rs::Share::from_bytes(&b[..]);
    let mut canon = [0u8; N];
    let want = ref_share(&b, 0, N, &mut canon);
    assert!(r.is_some() == want.is_some(), "accept/reject agrees with the reference parser");
    if let Some(s) = &r {
        let n = want.unwrap();
        let e = s.to_bytes();
        assert!(e.len() == n, "canonical length");
        let mut i = 0;
        while i < n {
            assert!(e[i] == canon[i], "re-encoding is the canonical form of the input");
            i += 1;
        }
        let r2 = sta_rs::Share::from_bytes(&e[..]);
        assert!(r2.is_some() && r2.as_ref().unwrap() == s, "round trip");
        kani::cover!(true, "accepted");
        core::mem::forget(e);
        core::mem::forget(r2);
    } else {
        kani::cover!(true, "rejected");
    }
    core::mem::forget(r);
}
lens8!(share_vs_ref, c08_share_8 = 8, c08_share_103 = 103, c08_share_104 = 104, c08_share_106 = 106,
       c08_share_128 = 128, c08_share_130 = 130);

// ---------------------------------------------------------------------------
// sta_rs::Message
// ---------------------------------------------------------------------------
fn message_vs_ref<const N: usize>() {
    let b: [u8; N] = kani::any();
    let r = sta_rs::Message::from_bytes(&b[..]);
    // reference: chunk(ciphertext) chunk(share) chunk(tag) [trailing bytes ignored]
    let mut canon = [0u8; N];
    let mut want: Option<usize> = None;
    if let Some((co, cn)) = chunk(&b, 0, N) {
        if let Some((so, sn)) = chunk(&b, co + cn, N) {
            let mut sc = [0u8; N];
            if let Some(sl) = ref_share(&b, so, so + sn, &mut sc) {
                if let Some((to, tn)) = chunk(&b, so + sn, N) {
                    let mut w = 0;
                    let mut i = 0;
                    while i < 4 + cn {
                        canon[w] = b[co - 4 + i];
                        w += 1;
                        i += 1;
                    }
                    let slb = (sl as u32).to_le_bytes();
                    canon[w] = slb[0];
                    canon[w + 1] = slb[1];
                    canon[w + 2] = slb[2];
                    canon[w + 3] = slb[3];
                    w += 4;
                    let mut i = 0;
                    while i < sl {
                        canon[w] = sc[i];
                        w += 1;
                        i += 1;
                    }
                    let mut i = 0;
                    while i < 4 + tn {
                        canon[w] = b[to - 4 + i];
                        w += 1;
                        i += 1;
                    }
                    want = Some(w);
                }
            }
        }
    }
    assert!(r.is_some() == want.is_some(), "accept/reject agrees with the reference parser");
    if let Some(m) = &r {
        let n = want.unwrap();
        let e = m.to_bytes();
        assert!(e.len() == n, "canonical length");
        let mut i = 0;
        while i < n {
            assert!(e[i] == canon[i], "re-encoding is the canonical form of the input");
            i += 1;
        }
        let r2 = sta_rs::Message::from_bytes(&e[..]);
        assert!(r2.is_some() && r2.as_ref().unwrap() == m, "round trip");
        kani::cover!(true, "accepted");
        core::mem::forget(e);
        core::mem::forget(r2);
    } else {
        kani::cover!(true, "rejected");
    }
    core::mem::forget(r);
}
lens8!(message_vs_ref, c08_message_12 = 12, c08_message_115 = 115, c08_message_116 = 116, c08_message_120 = 120);

// ---------------------------------------------------------------------------
// chunk helpers against the reference on large buffers (length headers up to 2^17)
// ---------------------------------------------------------------------------
#[kani::proof]
#[kani::unwind(6)]
fn c08_load_bytes_ref_big() {
    const N: usize = 70000;
    let b: [u8; N] = kani::any();
    let n: usize = kani::any();
    kani::assume(n <= N);
    let r = adss::load_bytes(&b[..n]);
    let want = chunk(&b, 0, n);
    assert!(r.is_some() == want.is_some(), "accept/reject agrees with the reference");
    if let Some(c) = r {
        let (o, l) = want.unwrap();
        assert!(c.len() == l, "chunk length is the little-endian header");
        assert!(c.as_ptr() == b[o..].as_ptr(), "chunk starts right after the 4-byte header");
        kani::cover!(l > 65536, "chunk longer than 64 KiB");
        kani::cover!(l == 256, "chunk of 256 bytes");
    }
    let u = adss::load_u32(&b[..4]);
    assert!(u == Some(le32(&b, 0) as u32), "u32 is little-endian");
}

fn store_ref<const L: usize>() {
    let s: [u8; L] = kani::any();
    let mut out: Vec<u8> = Vec::new();
    adss::store_bytes(&s, &mut out);
    assert!(out.len() == 4 + L);
    assert!(le32(&out, 0) == L, "4-byte little-endian length prefix");
    let mut i = 0;
    while i < L {
        assert!(out[4 + i] == s[i]);
        i += 1;
    }
    let back = adss::load_bytes(&out);
    assert!(back.is_some() && back.unwrap().len() == L, "load_bytes inverts store_bytes");
    core::mem::forget(out);
}
#[kani::proof]
#[kani::unwind(4)]
fn c08_store_bytes_0() { store_ref::<0>() }
#[kani::proof]
#[kani::unwind(4)]
fn c08_store_bytes_255() { store_ref::<255>() }
#[kani::proof]
#[kani::unwind(4)]
fn c08_store_bytes_256() { store_ref::<256>() }
#[kani::proof]
#[kani::unwind(4)]
fn c08_store_bytes_300() { store_ref::<300>() }

dec_stubs! { #[kani::unwind(5)] fn probe_vec_from_share() {
    let x: [u64; 3] = kani::any();
    kani::assume(limbs_lt_p(&x));
    let s = star_sharks::Share { x: fp_from_limbs(x), y: vec![fp_from_limbs(x)] };
    let e: Vec<u8> = Vec::from(&s);
    assert!(e.len() == 48);
} }
#[kani::proof]
#[kani::unwind(5)]
fn probe_concat() {
    let a: [u8; 3] = kani::any();
    let v = [a.to_vec()].iter().fold(Vec::new(), |acc: Vec<u8>, r| [acc, r.to_vec()].concat());
    assert!(v.len() == 3);
}
