//! C08 — wire encodings round-trip and reject malformed input, against an
//! independent parser of the documented layout written here (no repository code).
use crate::stubs::*;
use core::convert::TryFrom;

macro_rules! dec_stubs {
    ($(#[$m:meta])* fn $name:ident() $body:block) => {
        #[kani::proof]
        #[kani::stub(zeroize::optimization_barrier, barrier_noop)]
        #[kani::stub(<star_sharks::Fp as ff::PrimeField>::from_repr, fp_from_repr_spec)]
        #[kani::stub(<star_sharks::Fp as ff::PrimeField>::to_repr, fp_to_repr_spec)]
        #[kani::stub(<sta_rs::Share as core::ops::Drop>::drop, drop_noop_star_share)]
        #[kani::stub(<adss::AccessStructure as core::ops::Drop>::drop, drop_noop_access)]
        $(#[$m])*
        fn $name() $body
    };
}

// ---------------------------------------------------------------------------
// reference parser of the documented layout
// ---------------------------------------------------------------------------
fn le32(b: &[u8], o: usize) -> usize {
    (b[o] as usize) | ((b[o + 1] as usize) << 8) | ((b[o + 2] as usize) << 16) | ((b[o + 3] as usize) << 24)
}
/// canonical little-endian field element: integer < 2^128 + 12451
fn elem_ok(b: &[u8], o: usize) -> bool {
    let l0 = u64::from_le_bytes([b[o], b[o + 1], b[o + 2], b[o + 3], b[o + 4], b[o + 5], b[o + 6], b[o + 7]]);
    let l1 = u64::from_le_bytes([b[o + 8], b[o + 9], b[o + 10], b[o + 11], b[o + 12], b[o + 13], b[o + 14], b[o + 15]]);
    let l2 = u64::from_le_bytes([b[o + 16], b[o + 17], b[o + 18], b[o + 19], b[o + 20], b[o + 21], b[o + 22], b[o + 23]]);
    l2 == 0 || (l2 == 1 && l1 == 0 && l0 < 12451)
}
/// chunk at offset o of b[..end]: (data offset, data length) or None
fn chunk(b: &[u8], o: usize, end: usize) -> Option<(usize, usize)> {
    if end < o || end - o < 4 {
        return None;
    }
    let n = le32(b, o);
    if end - o - 4 < n {
        return None;
    }
    Some((o + 4, n))
}

/// Reference for the Shamir part `x | y_1 .. y_k | ignored tail(<24)`: number of
/// elements kept (1 + k) or None
fn ref_sharks(b: &[u8], o: usize, n: usize) -> Option<usize> {
    if n < 24 {
        return None;
    }
    let cnt = n / 24;
    // explicit cap: the harness buffers hold at most 10 elements (keeps the loop bound
    // decidable for the model checker; larger counts cannot occur within the buffer)
    if cnt > 10 {
        return None;
    }
    let mut i = 0;
    while i < 10 {
        if i < cnt && !elem_ok(b, o + 24 * i) {
            return None;
        }
        i += 1;
    }
    Some(cnt)
}

/// Reference acceptance predicate for an ADSS share occupying b[o..end]
fn ref_share_ok(b: &[u8], o: usize, end: usize) -> bool {
    if end < o || end - o < 4 {
        return false;
    }
    let (so, sn) = match chunk(b, o + 4, end) {
        Some(x) => x,
        None => return false,
    };
    let (co, cn) = match chunk(b, so + sn, end) {
        Some(x) => x,
        None => return false,
    };
    let (d_o, dn) = match chunk(b, co + cn, end) {
        Some(x) => x,
        None => return false,
    };
    if end - (d_o + dn) != 64 {
        return false;
    }
    ref_sharks(b, so, sn).is_some()
}
/// Reference acceptance predicate for a report: chunk(ciphertext) chunk(share) chunk(tag),
/// trailing bytes ignored
fn ref_message_ok(b: &[u8], n: usize) -> bool {
    let (co, cn) = match chunk(b, 0, n) {
        Some(x) => x,
        None => return false,
    };
    let (so, sn) = match chunk(b, co + cn, n) {
        Some(x) => x,
        None => return false,
    };
    if !ref_share_ok(b, so, so + sn) {
        return false;
    }
    chunk(b, so + sn, n).is_some()
}

// ---- accept / reject agreement over all byte strings of a length ------------------
fn sharks_accept<const N: usize>() {
    let b: [u8; N] = kani::any();
    let r = star_sharks::Share::try_from(&b[..]);
    let want = ref_sharks(&b, 0, N);
    assert!(r.is_ok() == want.is_some(), "accept/reject agrees with the reference parser");
    if let Ok(s) = &r {
        assert!(s.y.len() + 1 == want.unwrap(), "number of decoded elements");
    }
    kani::cover!(r.is_ok(), "accepted");
    kani::cover!(r.is_err(), "rejected");
    core::mem::forget(r);
}
fn share_accept<const N: usize>() {
    let b: [u8; N] = kani::any();
    let r = sta_rs::Share::from_bytes(&b[..]);
    assert!(r.is_some() == ref_share_ok(&b, 0, N), "accept/reject agrees with the reference parser");
    kani::cover!(r.is_some(), "accepted");
    kani::cover!(r.is_none(), "rejected");
    core::mem::forget(r);
}
fn message_accept<const N: usize>() {
    let b: [u8; N] = kani::any();
    let r = sta_rs::Message::from_bytes(&b[..]);
    assert!(r.is_some() == ref_message_ok(&b, N), "accept/reject agrees with the reference parser");
    kani::cover!(r.is_some(), "accepted");
    kani::cover!(r.is_none(), "rejected");
    core::mem::forget(r);
}
macro_rules! lens8 {
    ($f:ident, $($name:ident = $n:expr),* $(,)?) => {
        $( dec_stubs! { #[kani::unwind(5)] fn $name() { $f::<$n>() } } )*
    };
}
lens8!(sharks_accept, c08_sharks_accept_23 = 23, c08_sharks_accept_24 = 24, c08_sharks_accept_47 = 47,
       c08_sharks_accept_48 = 48, c08_sharks_accept_50 = 50, c08_sharks_accept_72 = 72);
lens8!(share_accept, c08_share_accept_8 = 8, c08_share_accept_103 = 103, c08_share_accept_104 = 104,
       c08_share_accept_106 = 106, c08_share_accept_128 = 128, c08_share_accept_130 = 130);
lens8!(message_accept, c08_message_accept_12 = 12, c08_message_accept_115 = 115, c08_message_accept_116 = 116,
       c08_message_accept_120 = 120, c08_message_accept_144 = 144);

// ---- canonical re-encoding and round trip for concrete shapes -----------------------
fn put32(buf: &mut [u8], o: usize, v: usize) {
    let b = (v as u32).to_le_bytes();
    buf[o] = b[0];
    buf[o + 1] = b[1];
    buf[o + 2] = b[2];
    buf[o + 3] = b[3];
}
/// writes a share with Shamir part of `sn` bytes, C of `cn`, D of `dn` bytes (all contents
/// symbolic, all length headers exactly as stated) at buf[o..]; returns its length
fn build_share(buf: &mut [u8; 240], o: usize, sn: usize, cn: usize, dn: usize) -> usize {
    let body: [u8; 240] = kani::any();
    let n = 4 + 4 + sn + 4 + cn + 4 + dn + 64;
    let mut i = 0;
    while i < n {
        buf[o + i] = body[i];
        i += 1;
    }
    put32(buf, o + 4, sn);
    put32(buf, o + 8 + sn, cn);
    put32(buf, o + 12 + sn + cn, dn);
    n
}
/// expected canonical form of a share built by `build_share`: the Shamir part is cut to
/// whole elements and its length prefix adjusted; nothing else changes
fn check_share_canon(e: &[u8], buf: &[u8; 240], o: usize, sn: usize, cn: usize, dn: usize) {
    let sk = 24 * (sn / 24);
    let n = 4 + 4 + sk + 4 + cn + 4 + dn + 64;
    assert!(e.len() == n, "canonical length");
    // one arbitrary position stands for all positions
    let k: usize = kani::any();
    kani::assume(k < n);
    let skb = (sk as u32).to_le_bytes();
    let want = if k < 4 {
        buf[o + k] // threshold bytes unchanged
    } else if k < 8 {
        skb[k - 4] // Shamir length prefix adjusted to whole elements
    } else if k < 8 + sk {
        buf[o + k] // field elements unchanged
    } else {
        buf[o + 8 + sn + (k - 8 - sk)] // C, D, J and their prefixes unchanged
    };
    assert!(e[k] == want, "re-encoding is the canonical form of the input (ignored bytes dropped, prefix adjusted, nothing else changed)");
}
fn share_canon(sn: usize, cn: usize, dn: usize) {
    let mut buf = [0u8; 240];
    let n = build_share(&mut buf, 0, sn, cn, dn);
    let r = sta_rs::Share::from_bytes(&buf[..n]);
    let ok = ref_sharks(&buf, 8, sn).is_some();
    assert!(r.is_some() == ok, "a structurally valid share is accepted iff its field elements are canonical");
    if let Some(s) = &r {
        let e = s.to_bytes();
        check_share_canon(&e, &buf, 0, sn, cn, dn);
        kani::cover!(true, "accepted");
        core::mem::forget(e);
    }
    core::mem::forget(r);
}
/// decode(encode(v)) == v for the value decoded from a structurally valid share
fn share_roundtrip(sn: usize, cn: usize, dn: usize) {
    let mut buf = [0u8; 240];
    let n = build_share(&mut buf, 0, sn, cn, dn);
    let r = sta_rs::Share::from_bytes(&buf[..n]);
    if let Some(s) = &r {
        let e = s.to_bytes();
        let r2 = sta_rs::Share::from_bytes(&e[..]);
        assert!(r2.is_some(), "the encoding of a share decodes");
        assert!(r2.as_ref().unwrap() == s, "decode(encode(v)) == v");
        kani::cover!(true, "accepted");
        core::mem::forget((e, r2));
    }
    core::mem::forget(r);
}
dec_stubs! { #[kani::unwind(5)] fn c08_share_roundtrip_48_4_4() { share_roundtrip(48, 4, 4) } }
dec_stubs! { #[kani::unwind(5)] fn c08_share_roundtrip_24_0_0() { share_roundtrip(24, 0, 0) } }
dec_stubs! { #[kani::unwind(5)] fn c08_share_canon_24_0_0() { share_canon(24, 0, 0) } }
dec_stubs! { #[kani::unwind(5)] fn c08_share_canon_48_4_4() { share_canon(48, 4, 4) } }
dec_stubs! { #[kani::unwind(5)] fn c08_share_canon_50_1_3() { share_canon(50, 1, 3) } }
dec_stubs! { #[kani::unwind(5)] fn c08_share_canon_72_32_32() { share_canon(72, 32, 32) } }

/// report = chunk(ciphertext of cl bytes) chunk(share) chunk(tag of tl bytes) + `extra`
/// ignored trailing bytes
fn message_canon(cl: usize, sn: usize, cn: usize, dn: usize, tl: usize, extra: usize) {
    let mut buf = [0u8; 240];
    let pre: [u8; 240] = kani::any();
    let mut i = 0;
    while i < 240 {
        buf[i] = pre[i];
        i += 1;
    }
    put32(&mut buf, 0, cl);
    let so = 4 + cl + 4;
    let sl = build_share(&mut buf, so, sn, cn, dn);
    put32(&mut buf, so - 4, sl);
    put32(&mut buf, so + sl, tl);
    let n = so + sl + 4 + tl + extra;
    let r = sta_rs::Message::from_bytes(&buf[..n]);
    let ok = ref_sharks(&buf, so + 8, sn).is_some();
    assert!(r.is_some() == ok, "a structurally valid report is accepted iff its field elements are canonical");
    if let Some(m) = &r {
        let e = m.to_bytes();
        let sk = 24 * (sn / 24);
        let slc = sl - (sn - sk);
        assert!(e.len() == 4 + cl + 4 + slc + 4 + tl, "canonical length: ignored bytes dropped");
        let k: usize = kani::any();
        kani::assume(k < 4 + cl);
        assert!(e[k] == buf[k], "ciphertext chunk unchanged");
        assert!(le32(&e, 4 + cl) == slc, "share length prefix adjusted");
        check_share_canon(&e[so..so + slc], &buf, so, sn, cn, dn);
        let k2: usize = kani::any();
        kani::assume(k2 < 4 + tl);
        assert!(e[so + slc + k2] == buf[so + sl + k2], "tag chunk unchanged");
        kani::cover!(true, "accepted");
        core::mem::forget(e);
    }
    core::mem::forget(r);
}
dec_stubs! { #[kani::unwind(5)] fn c08_message_canon_0_24_0_0_0_0() { message_canon(0, 24, 0, 0, 0, 0) } }
dec_stubs! { #[kani::unwind(5)] fn c08_message_canon_3_48_4_4_32_0() { message_canon(3, 48, 4, 4, 32, 0) } }
dec_stubs! { #[kani::unwind(5)] fn c08_message_canon_3_50_1_3_4_2() { message_canon(3, 50, 1, 3, 4, 2) } }

// ---------------------------------------------------------------------------
// chunk helpers against the reference on large buffers (length headers up to 2^17)
// ---------------------------------------------------------------------------
#[kani::proof]
#[kani::unwind(6)]
fn c08_load_bytes_ref_big() {
    const N: usize = 70000;
    let b: [u8; N] = kani::any();
    let n: usize = kani::any();
    kani::assume(n <= N);
    let r = adss::load_bytes(&b[..n]);
    let want = chunk(&b, 0, n);
    assert!(r.is_some() == want.is_some(), "accept/reject agrees with the reference");
    if let Some(c) = r {
        let (o, l) = want.unwrap();
        assert!(c.len() == l, "chunk length is the little-endian header");
        assert!(c.as_ptr() == b[o..].as_ptr(), "chunk starts right after the 4-byte header");
        kani::cover!(l > 65536, "chunk longer than 64 KiB");
        kani::cover!(l == 256, "chunk of 256 bytes");
    }
    let u = adss::load_u32(&b[..4]);
    assert!(u == Some(le32(&b, 0) as u32), "u32 is little-endian");
}

fn store_ref<const L: usize>() {
    let s: [u8; L] = kani::any();
    let mut out: Vec<u8> = Vec::new();
    adss::store_bytes(&s, &mut out);
    assert!(out.len() == 4 + L);
    assert!(le32(&out, 0) == L, "4-byte little-endian length prefix");
    let mut i = 0;
    while i < L {
        assert!(out[4 + i] == s[i]);
        i += 1;
    }
    let back = adss::load_bytes(&out);
    assert!(back.is_some() && back.unwrap().len() == L, "load_bytes inverts store_bytes");
    core::mem::forget(out);
}
#[kani::proof]
#[kani::unwind(4)]
fn c08_store_bytes_0() { store_ref::<0>() }
#[kani::proof]
#[kani::unwind(4)]
fn c08_store_bytes_255() { store_ref::<255>() }
#[kani::proof]
#[kani::unwind(4)]
fn c08_store_bytes_256() { store_ref::<256>() }
#[kani::proof]
#[kani::unwind(4)]
fn c08_store_bytes_300() { store_ref::<300>() }


// ---- star_sharks::Share: canonical re-encoding of every accepted byte string ---------
fn sharks_canon<const N: usize>() {
    let b: [u8; N] = kani::any();
    let r = star_sharks::Share::try_from(&b[..]);
    if let Ok(s) = &r {
        let cnt = N / 24;
        let e: Vec<u8> = Vec::from(s);
        assert!(e.len() == 24 * cnt, "re-encoding drops only the ignored tail");
        let mut i = 0;
        while i < 24 * cnt {
            assert!(e[i] == b[i], "re-encoding is the canonical prefix of the input");
            i += 1;
        }
        kani::cover!(true, "accepted");
        core::mem::forget(e);
    }
    core::mem::forget(r);
}
lens8!(sharks_canon, c08_sharks_canon_24 = 24, c08_sharks_canon_47 = 47, c08_sharks_canon_48 = 48, c08_sharks_canon_50 = 50, c08_sharks_canon_72 = 72);

// ---- adss/sta_rs share: canonical re-encoding for given chunk lengths ----------------
fn share_canon2<const N: usize>(sn: usize, cn: usize, dn: usize) {
    let b: [u8; N] = kani::any();
    // the three length headers say (sn, cn, dn); everything else is arbitrary
    kani::assume(le32(&b, 4) == sn);
    kani::assume(le32(&b, 8 + sn) == cn);
    kani::assume(le32(&b, 12 + sn + cn) == dn);
    let r = sta_rs::Share::from_bytes(&b[..]);
    if let Some(s) = &r {
        let e = s.to_bytes();
        let sk = 24 * (sn / 24);
        assert!(e.len() == N - (sn - sk), "only the ignored tail of the Shamir chunk is dropped");
        let mut i = 0;
        while i < 4 {
            assert!(e[i] == b[i], "threshold bytes unchanged");
            i += 1;
        }
        assert!(le32(&e, 4) == sk, "Shamir length prefix adjusted to whole elements");
        let mut i = 0;
        while i < sk {
            assert!(e[8 + i] == b[8 + i], "field elements unchanged");
            i += 1;
        }
        let rest = N - 8 - sn;
        let mut i = 0;
        while i < rest {
            assert!(e[8 + sk + i] == b[8 + sn + i], "C, D, J and their prefixes unchanged");
            i += 1;
        }
        kani::cover!(true, "accepted");
        core::mem::forget(e);
    }
    core::mem::forget(r);
}
dec_stubs! { #[kani::unwind(5)] fn c08_share_canon2_24_1_1() { share_canon2::<106>(24, 1, 1) } }
dec_stubs! { #[kani::unwind(5)] fn c08_share_canon2_50_1_3() { share_canon2::<134>(50, 1, 3) } }
