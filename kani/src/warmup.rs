//! Trivial harness used only to build the dependency graph of a fresh target dir.
#[kani::proof]
fn warmup() {
    let x: u8 = kani::any();
    assert!(x as u16 <= 255);
}
