//! C09 — data from other parties never crashes the receiver.
//! Panic-freedom = Kani's default checks (panic, index, overflow, unwrap, unwinding
//! assertions); the harnesses add only reachability witnesses (`kani::cover!`).
use crate::stubs::*;
use core::convert::TryFrom;

// ---- adss chunk helpers: every buffer length 0..=12, header any u32 -------------
#[kani::proof]
#[kani::unwind(14)]
#[kani::stub(zeroize::optimization_barrier, barrier_noop)]
fn c09_load_helpers() {
    let b: [u8; 12] = kani::any();
    let n: usize = kani::any();
    kani::assume(n <= 12);
    let s = &b[..n];
    let r = adss::load_bytes(s);
    kani::cover!(r.is_some(), "load_bytes accepts");
    kani::cover!(r.is_none() && n >= 4, "load_bytes rejects a long header");
    if let Some(c) = r {
        assert!(c.len() + 4 <= n);
    }
    let u = adss::load_u32(s);
    assert!(u.is_some() == (n == 4));
    let a = adss::AccessStructure::from_bytes(s);
    assert!(a.is_some() == (n == 4));
}

// ---- star_sharks::Share::try_from over all byte strings of a given length -------
fn sharks_try_from<const N: usize>() {
    let b: [u8; N] = kani::any();
    let r = star_sharks::Share::try_from(&b[..]);
    kani::cover!(r.is_ok(), "accepted");
    kani::cover!(r.is_err(), "rejected");
    core::mem::forget(r);
}
macro_rules! lens {
    ($f:ident, $($name:ident = $n:expr),* $(,)?) => {
        $(
            #[kani::proof]
            #[kani::unwind(5)]
            #[kani::stub(zeroize::optimization_barrier, barrier_noop)]
            #[kani::stub(<star_sharks::Fp as ff::PrimeField>::from_repr, fp_from_repr_spec)]
            #[kani::stub(<sta_rs::Share as core::ops::Drop>::drop, drop_noop_star_share)]
            #[kani::stub(<adss::AccessStructure as core::ops::Drop>::drop, drop_noop_access)]
            fn $name() { $f::<$n>() }
        )*
    };
}
lens!(sharks_try_from,
  c09_sharks_try_from_0 = 0, c09_sharks_try_from_23 = 23, c09_sharks_try_from_24 = 24,
  c09_sharks_try_from_25 = 25, c09_sharks_try_from_47 = 47, c09_sharks_try_from_48 = 48,
  c09_sharks_try_from_72 = 72);

// ---- sta_rs::Share::from_bytes (wrapper of adss::Share::from_bytes) -------------
fn star_share_from_bytes<const N: usize>() {
    let b: [u8; N] = kani::any();
    let r = sta_rs::Share::from_bytes(&b[..]);
    kani::cover!(r.is_some(), "accepted");
    kani::cover!(r.is_none(), "rejected");
    core::mem::forget(r);
}
lens!(star_share_from_bytes,
  c09_share_from_bytes_0 = 0, c09_share_from_bytes_3 = 3, c09_share_from_bytes_4 = 4,
  c09_share_from_bytes_7 = 7, c09_share_from_bytes_8 = 8, c09_share_from_bytes_16 = 16,
  c09_share_from_bytes_79 = 79, c09_share_from_bytes_80 = 80, c09_share_from_bytes_103 = 103,
  c09_share_from_bytes_104 = 104, c09_share_from_bytes_108 = 108, c09_share_from_bytes_128 = 128);

// ---- sta_rs::Message::from_bytes ----------------------------------------------
fn message_from_bytes<const N: usize>() {
    let b: [u8; N] = kani::any();
    let r = sta_rs::Message::from_bytes(&b[..]);
    kani::cover!(r.is_some(), "accepted");
    kani::cover!(r.is_none(), "rejected");
    core::mem::forget(r);
}
lens!(message_from_bytes,
  c09_message_from_bytes_0 = 0, c09_message_from_bytes_3 = 3, c09_message_from_bytes_4 = 4,
  c09_message_from_bytes_8 = 8, c09_message_from_bytes_11 = 11, c09_message_from_bytes_12 = 12,
  c09_message_from_bytes_115 = 115, c09_message_from_bytes_116 = 116, c09_message_from_bytes_120 = 120);

// ---- share recovery on decoded (attacker-chosen) shares --------------------------
macro_rules! recover_stubs {
    ($(#[$m:meta])* fn $name:ident() $body:block) => {
        #[kani::proof]
        #[kani::stub(keccak::f1600, f1600_any)]
        #[kani::stub(<byteorder::LittleEndian as byteorder::ByteOrder>::read_u64_into, read_u64_into_25)]
        #[kani::stub(<byteorder::LittleEndian as byteorder::ByteOrder>::write_u64_into, write_u64_into_25)]
        #[kani::stub(zeroize::optimization_barrier, barrier_noop)]
        #[kani::stub(<strobe_rs::Strobe as core::ops::Drop>::drop, strobe_drop_noop)]
        #[kani::stub(<sta_rs::Share as core::ops::Drop>::drop, drop_noop_star_share)]
        #[kani::stub(<adss::AccessStructure as core::ops::Drop>::drop, drop_noop_access)]
        #[kani::stub(<adss::Commune as core::ops::Drop>::drop, drop_noop_commune)]
        #[kani::stub(<star_sharks::Fp as ff::PrimeField>::from_repr, fp_from_repr_spec)]
        #[kani::stub(<star_sharks::Fp as ff::PrimeField>::to_repr, fp_to_repr_spec)]
        #[kani::stub(<star_sharks::Fp as core::ops::MulAssign<&star_sharks::Fp>>::mul_assign, fp_mul_assign_laws)]
        #[kani::stub(<star_sharks::Fp as ff::Field>::invert, fp_invert_laws)]
        $(#[$m])*
        fn $name() $body
    };
}

/// one or two arbitrary byte strings that the real decoder accepts, handed to
/// `share_recover` (thresholds, points, values, ciphertexts, MAC all attacker-chosen)
fn recover_decoded<const N1: usize, const N2: usize>() {
    let b1: [u8; N1] = kani::any();
    let s1 = sta_rs::Share::from_bytes(&b1[..]);
    if N2 == 0 {
        if let Some(a) = s1 {
            let v = [a];
            let r = sta_rs::share_recover(&v);
            kani::cover!(r.is_err(), "rejected");
            core::mem::forget(r);
            core::mem::forget(v);
        }
    } else {
        let b2: [u8; N2] = kani::any();
        let s2 = sta_rs::Share::from_bytes(&b2[..]);
        if let (Some(a), Some(b)) = (s1, s2) {
            let v = [a, b];
            let r = sta_rs::share_recover(&v);
            kani::cover!(r.is_err(), "rejected");
            core::mem::forget(r);
            core::mem::forget(v);
        }
    }
}
recover_stubs! { #[kani::unwind(5)] fn c09_recover_104() { recover_decoded::<104, 0>() } }
recover_stubs! { #[kani::unwind(5)] fn c09_recover_128() { recover_decoded::<128, 0>() } }
recover_stubs! { #[kani::unwind(5)] fn c09_recover_128_128() { recover_decoded::<128, 128>() } }
recover_stubs! { #[kani::unwind(5)] fn c09_recover_104_128() { recover_decoded::<104, 128>() } }

/// Shamir recovery on arbitrary in-memory shares (n <= 3, equal or unequal lengths, any
/// threshold, duplicate points, zero points)
fn sharks_recover_any<const N: usize>() {
    let t: u32 = kani::any();
    let mut v: Vec<star_sharks::Share> = Vec::with_capacity(N);
    let mut i = 0;
    while i < N {
        let x: [u64; 3] = kani::any();
        kani::assume(limbs_lt_p(&x));
        let ny: u8 = kani::any();
        kani::assume(ny <= 1);
        let mut y = Vec::new();
        if ny == 1 {
            let yl: [u64; 3] = kani::any();
            kani::assume(limbs_lt_p(&yl));
            y.push(fp_from_limbs(yl));
        }
        v.push(star_sharks::Share { x: fp_from_limbs(x), y });
        i += 1;
    }
    let sh = star_sharks::Sharks(t);
    let r = sh.recover(&v);
    kani::cover!(r.is_ok(), "recovered");
    kani::cover!(r.is_err(), "refused");
    core::mem::forget(r);
    core::mem::forget(v);
}
recover_stubs! { #[kani::unwind(6)] fn c09_sharks_recover_n0() { sharks_recover_any::<0>() } }
recover_stubs! { #[kani::unwind(6)] fn c09_sharks_recover_n2() { sharks_recover_any::<2>() } }
recover_stubs! { #[kani::unwind(6)] fn c09_sharks_recover_n3() { sharks_recover_any::<3>() } }
