//! C09 — data from other parties never crashes the receiver.
//! Panic-freedom = Kani's default checks (panic, index, overflow, unwrap, unwinding
//! assertions); the harnesses add only reachability witnesses (`kani::cover!`).
use crate::stubs::*;
use core::convert::TryFrom;

// ---- adss chunk helpers: every buffer length 0..=12, header any u32 -------------
#[kani::proof]
#[kani::unwind(14)]
#[kani::stub(zeroize::optimization_barrier, barrier_noop)]
fn c09_load_helpers() {
    let b: [u8; 12] = kani::any();
    let n: usize = kani::any();
    kani::assume(n <= 12);
    let s = &b[..n];
    let r = adss::load_bytes(s);
    kani::cover!(r.is_some(), "load_bytes accepts");
    kani::cover!(r.is_none() && n >= 4, "load_bytes rejects a long header");
    if let Some(c) = r {
        assert!(c.len() + 4 <= n);
    }
    let u = adss::load_u32(s);
    assert!(u.is_some() == (n == 4));
    let a = adss::AccessStructure::from_bytes(s);
    assert!(a.is_some() == (n == 4));
}

// ---- star_sharks::Share::try_from over all byte strings of a given length -------
fn sharks_try_from<const N: usize>() {
    let b: [u8; N] = kani::any();
    let r = star_sharks::Share::try_from(&b[..]);
    kani::cover!(r.is_ok(), "accepted");
    kani::cover!(r.is_err(), "rejected");
    core::mem::forget(r);
}
macro_rules! lens {
    ($f:ident, $($name:ident = $n:expr),* $(,)?) => {
        $(
            #[kani::proof]
            #[kani::unwind(5)]
            #[kani::stub(zeroize::optimization_barrier, barrier_noop)]
            #[kani::stub(<star_sharks::Fp as ff::PrimeField>::from_repr, fp_from_repr_spec)]
            #[kani::stub(<sta_rs::Share as core::ops::Drop>::drop, drop_noop_star_share)]
            #[kani::stub(<adss::AccessStructure as core::ops::Drop>::drop, drop_noop_access)]
            fn $name() { $f::<$n>() }
        )*
    };
}
lens!(sharks_try_from,
  c09_sharks_try_from_0 = 0, c09_sharks_try_from_23 = 23, c09_sharks_try_from_24 = 24,
  c09_sharks_try_from_25 = 25, c09_sharks_try_from_47 = 47, c09_sharks_try_from_48 = 48,
  c09_sharks_try_from_72 = 72);

// ---- sta_rs::Share::from_bytes (wrapper of adss::Share::from_bytes) -------------
fn star_share_from_bytes<const N: usize>() {
    let b: [u8; N] = kani::any();
    let r = sta_rs::Share::from_bytes(&b[..]);
    kani::cover!(r.is_some(), "accepted");
    kani::cover!(r.is_none(), "rejected");
    core::mem::forget(r);
}
lens!(star_share_from_bytes,
  c09_share_from_bytes_0 = 0, c09_share_from_bytes_3 = 3, c09_share_from_bytes_4 = 4,
  c09_share_from_bytes_7 = 7, c09_share_from_bytes_8 = 8, c09_share_from_bytes_16 = 16,
  c09_share_from_bytes_79 = 79, c09_share_from_bytes_80 = 80, c09_share_from_bytes_103 = 103,
  c09_share_from_bytes_104 = 104, c09_share_from_bytes_108 = 108, c09_share_from_bytes_128 = 128);

// ---- sta_rs::Message::from_bytes ----------------------------------------------
fn message_from_bytes<const N: usize>() {
    let b: [u8; N] = kani::any();
    let r = sta_rs::Message::from_bytes(&b[..]);
    kani::cover!(r.is_some(), "accepted");
    kani::cover!(r.is_none(), "rejected");
    core::mem::forget(r);
}
lens!(message_from_bytes,
  c09_message_from_bytes_0 = 0, c09_message_from_bytes_3 = 3, c09_message_from_bytes_4 = 4,
  c09_message_from_bytes_8 = 8, c09_message_from_bytes_11 = 11, c09_message_from_bytes_12 = 12,
  c09_message_from_bytes_115 = 115, c09_message_from_bytes_116 = 116, c09_message_from_bytes_120 = 120);

// ---- share recovery on decoded (attacker-chosen) shares --------------------------
macro_rules! recover_stubs {
    ($(#[$m:meta])* fn $name:ident() $body:block) => {
        #[kani::proof]
        #[kani::stub(keccak::f1600, f1600_any)]
        #[kani::stub(<byteorder::LittleEndian as byteorder::ByteOrder>::read_u64_into, read_u64_into_25)]
        #[kani::stub(<byteorder::LittleEndian as byteorder::ByteOrder>::write_u64_into, write_u64_into_25)]
        #[kani::stub(zeroize::optimization_barrier, barrier_noop)]
        #[kani::stub(<strobe_rs::Strobe as core::ops::Drop>::drop, strobe_drop_noop)]
        #[kani::stub(<sta_rs::Share as core::ops::Drop>::drop, drop_noop_star_share)]
        #[kani::stub(<adss::AccessStructure as core::ops::Drop>::drop, drop_noop_access)]
        #[kani::stub(<adss::Commune as core::ops::Drop>::drop, drop_noop_commune)]
        #[kani::stub(<star_sharks::Fp as ff::PrimeField>::from_repr, fp_from_repr_spec)]
        #[kani::stub(<star_sharks::Fp as ff::PrimeField>::to_repr, fp_to_repr_spec)]
        #[kani::stub(<star_sharks::Fp as core::ops::MulAssign<&star_sharks::Fp>>::mul_assign, fp_mul_assign_laws)]
        #[kani::stub(<star_sharks::Fp as ff::Field>::invert, fp_invert_laws)]
        #[kani::stub(star_sharks::Sharks::recover, sharks_recover_ref)]
        $(#[$m])*
        fn $name() $body
    };
}

/// a share of the given chunk lengths with arbitrary contents (threshold, point, values,
/// ciphertexts, MAC all attacker-chosen), decoded by the real decoder
fn decoded_share(sn: usize, cn: usize, dn: usize) -> Option<sta_rs::Share> {
    let body: [u8; 160] = kani::any();
    let mut buf = body;
    let n = 4 + 4 + sn + 4 + cn + 4 + dn + 64;
    let put = |buf: &mut [u8; 160], o: usize, v: usize| {
        let b = (v as u32).to_le_bytes();
        buf[o] = b[0];
        buf[o + 1] = b[1];
        buf[o + 2] = b[2];
        buf[o + 3] = b[3];
    };
    put(&mut buf, 4, sn);
    put(&mut buf, 8 + sn, cn);
    put(&mut buf, 12 + sn + cn, dn);
    sta_rs::Share::from_bytes(&buf[..n])
}
/// `share_recover` never panics on one or two decoded shares (incl. shares without
/// y-coordinate, thresholds 0 and 2^32-1, equal points, zero points)
fn recover1(sn: usize, cn: usize, dn: usize) {
    ro_reset();
    if let Some(a) = decoded_share(sn, cn, dn) {
        let v = [a];
        let r = sta_rs::share_recover(&v);
        kani::cover!(r.is_err(), "rejected");
        core::mem::forget((r, v));
    }
}
fn recover2(sn1: usize, sn2: usize) {
    ro_reset();
    if let (Some(a), Some(b)) = (decoded_share(sn1, 2, 2), decoded_share(sn2, 0, 0)) {
        let v = [a, b];
        let r = sta_rs::share_recover(&v);
        kani::cover!(r.is_err(), "rejected");
        core::mem::forget((r, v));
    }
}
recover_stubs! { #[kani::unwind(5)] fn c09_recover_noy() { recover1(24, 2, 2) } }
recover_stubs! { #[kani::unwind(5)] fn c09_recover_y1() { recover1(48, 2, 2) } }
recover_stubs! { #[kani::unwind(5)] fn c09_recover_y1_y1() { recover2(48, 48) } }
recover_stubs! { #[kani::unwind(5)] fn c09_recover_noy_y1() { recover2(24, 48) } }

// ---- WASM grouping call on arbitrary short strings ---------------------------------------
#[kani::proof]
#[kani::unwind(8)]
#[kani::stub(alloc::fmt::format, fmt_noop)]
fn c09_group_shares_ascii4() {
    let b: [u8; 4] = kani::any();
    kani::assume(b[0] < 128 && b[1] < 128 && b[2] < 128 && b[3] < 128);
    let n: usize = kani::any();
    kani::assume(n <= 4);
    if let Ok(s) = core::str::from_utf8(&b[..n]) {
        let r = star_wasm::group_shares(s, "e");
        // nothing this short decodes to a share
        assert!(r.is_none(), "undecodable input yields nothing");
        kani::cover!(true, "reached");
    }
}

// ---- adss::recover on foreign shares: whatever key length the Shamir layer returns ---------
#[kani::proof]
#[kani::stub(keccak::f1600, f1600_any)]
#[kani::stub(<byteorder::LittleEndian as byteorder::ByteOrder>::read_u64_into, read_u64_into_25)]
#[kani::stub(<byteorder::LittleEndian as byteorder::ByteOrder>::write_u64_into, write_u64_into_25)]
#[kani::stub(zeroize::optimization_barrier, barrier_noop)]
#[kani::stub(<strobe_rs::Strobe as core::ops::Drop>::drop, strobe_drop_noop)]
#[kani::stub(<adss::AccessStructure as core::ops::Drop>::drop, drop_noop_access)]
#[kani::stub(<adss::Commune as core::ops::Drop>::drop, drop_noop_commune)]
#[kani::stub(star_sharks::Sharks::recover, sharks_recover_any_len)]
#[kani::unwind(5)]
fn c09_recover_any_key_length() {
    let x: [u64; 3] = kani::any();
    let t: u32 = kani::any();
    let c: [u8; 2] = kani::any();
    let d: [u8; 2] = kani::any();
    let j: [u8; 64] = kani::any();
    let s = adss::Share::verif_from_parts(t, star_sharks::Share { x: fp_from_limbs(x), y: Vec::new() }, c.to_vec(), d.to_vec(), j);
    let v = [s];
    let r = adss::recover(&v);
    kani::cover!(r.is_err(), "rejected");
    core::mem::forget((r, v));
}
