//! C09 — data from other parties never crashes the receiver.
//! Panic-freedom = Kani's default checks (panic, index, overflow, unwrap, unwinding
//! assertions); the harnesses add only reachability witnesses (`kani::cover!`).
use crate::stubs::*;
use core::convert::TryFrom;

// ---- adss chunk helpers: every buffer length 0..=12, header any u32 -------------
#[kani::proof]
#[kani::unwind(14)]
#[kani::stub(zeroize::optimization_barrier, barrier_noop)]
fn c09_load_helpers() {
    let b: [u8; 12] = kani::any();
    let n: usize = kani::any();
    kani::assume(n <= 12);
    let s = &b[..n];
    let r = adss::load_bytes(s);
    kani::cover!(r.is_some(), "load_bytes accepts");
    kani::cover!(r.is_none() && n >= 4, "load_bytes rejects a long header");
    if let Some(c) = r {
        assert!(c.len() + 4 <= n);
    }
    let u = adss::load_u32(s);
    assert!(u.is_some() == (n == 4));
    let a = adss::AccessStructure::from_bytes(s);
    assert!(a.is_some() == (n == 4));
}

// ---- star_sharks::Share::try_from over all byte strings of a given length -------
fn sharks_try_from<const N: usize>() {
    let b: [u8; N] = kani::any();
    let r = star_sharks::Share::try_from(&b[..]);
    kani::cover!(r.is_ok(), "accepted");
    kani::cover!(r.is_err(), "rejected");
    core::mem::forget(r);
}
macro_rules! lens {
    ($f:ident, $($name:ident = $n:expr),* $(,)?) => {
        $(
            #[kani::proof]
            #[kani::unwind(5)]
            #[kani::stub(zeroize::optimization_barrier, barrier_noop)]
            #[kani::stub(<star_sharks::Fp as ff::PrimeField>::from_repr, fp_from_repr_spec)]
            #[kani::stub(<sta_rs::Share as core::ops::Drop>::drop, drop_noop_star_share)]
            #[kani::stub(<adss::AccessStructure as core::ops::Drop>::drop, drop_noop_access)]
            fn $name() { $f::<$n>() }
        )*
    };
}
lens!(sharks_try_from,
  c09_sharks_try_from_0 = 0, c09_sharks_try_from_23 = 23, c09_sharks_try_from_24 = 24,
  c09_sharks_try_from_25 = 25, c09_sharks_try_from_47 = 47, c09_sharks_try_from_48 = 48,
  c09_sharks_try_from_72 = 72);

// ---- sta_rs::Share::from_bytes (wrapper of adss::Share::from_bytes) -------------
fn star_share_from_bytes<const N: usize>() {
    let b: [u8; N] = kani::any();
    let r = sta_rs::Share::from_bytes(&b[..]);
    kani::cover!(r.is_some(), "accepted");
    kani::cover!(r.is_none(), "rejected");
    core::mem::forget(r);
}
lens!(star_share_from_bytes,
  c09_share_from_bytes_0 = 0, c09_share_from_bytes_3 = 3, c09_share_from_bytes_4 = 4,
  c09_share_from_bytes_7 = 7, c09_share_from_bytes_8 = 8, c09_share_from_bytes_16 = 16,
  c09_share_from_bytes_79 = 79, c09_share_from_bytes_80 = 80, c09_share_from_bytes_103 = 103,
  c09_share_from_bytes_104 = 104, c09_share_from_bytes_108 = 108, c09_share_from_bytes_128 = 128);

// ---- sta_rs::Message::from_bytes ----------------------------------------------
fn message_from_bytes<const N: usize>() {
    let b: [u8; N] = kani::any();
    let r = sta_rs::Message::from_bytes(&b[..]);
    kani::cover!(r.is_some(), "accepted");
    kani::cover!(r.is_none(), "rejected");
    core::mem::forget(r);
}
lens!(message_from_bytes,
  c09_message_from_bytes_0 = 0, c09_message_from_bytes_3 = 3, c09_message_from_bytes_4 = 4,
  c09_message_from_bytes_8 = 8, c09_message_from_bytes_11 = 11, c09_message_from_bytes_12 = 12,
  c09_message_from_bytes_115 = 115, c09_message_from_bytes_116 = 116, c09_message_from_bytes_120 = 120);
