//! C16 / C05 / C02 / C03 — single-sharing harnesses over the real adss code in the
//! collision-free random-oracle model of the permutation (explicit style, small bounds).
use crate::c16::adss_stubs;
use crate::stubs::*;

fn u64_at(b: &[u8], o: usize) -> u64 {
    u64::from_le_bytes([b[o], b[o + 1], b[o + 2], b[o + 3], b[o + 4], b[o + 5], b[o + 6], b[o + 7]])
}

/// One `share()` call, inspected against the permutation log.
/// * everything but the point and the values at it is computed before the OS draw (hence
///   is a function of (threshold, message, coins) alone), exactly t-1 coefficient draws
///   come from the transcript-seeded RNG and the single share point from the OS RNG;
/// * J is the 64-byte MAC squeezed by call 2, K the 16-byte PRF output of call 3, the
///   message and the coins are XOR-masked with the keystream of the two `send_enc` calls
///   keyed with K; nothing else of the share is a function of M / R / K in the clear.
fn share_structure(ml: usize, rl: usize, t: u32) {
    let m: [u8; 8] = kani::any();
    let r: [u8; 8] = kani::any();
    ro_reset();
    let sh = adss::Commune::new(t, m[..ml].to_vec(), r[..rl].to_vec(), None).share();
    assert!(sh.is_ok(), "sharing never fails");
    let ncalls = unsafe { RO_N };
    let tt = t as usize;
    assert!(ncalls == 8 + 3 * (tt - 1), "permutation calls: 4 (transcript, key, MAC, K) + 3 per coefficient + 4 (cipher)");
    assert!(unsafe { OS_DRAWS } == 3, "exactly one OS-random field element (3 words) per share");
    assert!(unsafe { OS_AT_RO_N } == ncalls, "the OS draw happens after every permutation call: A, C, D, J and the polynomial do not depend on it");
    assert!(unsafe { OS_AT_FP_CALLS } == tt - 1 && unsafe { FP_RANDOM_CALLS } == tt, "t-1 coefficients from the transcript RNG, then the point");
    let e = sh.unwrap().to_bytes();
    let n = 4 + 4 + 48 + 4 + ml + 4 + rl + 64;
    assert!(e.len() == n);
    // x is the OS draw
    let x = unsafe { FP_RANDOM_LOG[tt - 1] };
    assert!(u64_at(&e, 8) == x[0] && u64_at(&e, 16) == x[1] && u64_at(&e, 24) == x[2], "share point == OS draw");
    // J == output of the send_mac call (index 2)
    let jo = n - 64;
    let mut i = 0;
    while i < 64 {
        assert!(e[jo + i] == out_byte(2, i), "J is the MAC squeezed from the transcript over (A, M, R)");
        i += 1;
    }
    // C / D masked by the keystream of the two send_enc calls (calls 4..8 are the cipher:
    // new, key, send_enc(C), send_enc(D); the coefficient draws come after them)
    let a = 4;
    let mut i = 0;
    while i < ml {
        assert!(e[60 + i] == m[i] ^ out_byte(a + 2, i), "C = M xor keystream(K)");
        i += 1;
    }
    let mut i = 0;
    while i < rl {
        assert!(e[64 + ml + i] == r[i] ^ out_byte(a + 3, i), "D = R xor keystream(K, C)");
        i += 1;
    }
    // Strobe is a duplex: the capacity lanes (21..24) of a permutation input are the capacity
    // lanes of the previous output of the same Strobe object.  This pins which object every
    // call belongs to: 0..3 the transcript over (A, M, R), 4..7 the cipher keyed with K, and
    // every coefficient draw continues the *transcript after M and R were absorbed*.
    let chained = |child: usize, parent: usize| -> bool {
        let (i, o) = unsafe { (RO_PRE[child], RO_OUT[parent]) };
        i[21] == o[21] && i[22] == o[22] && i[23] == o[23] && i[24] == o[24]
    };
    assert!(chained(1, 0) && chained(2, 1) && chained(3, 2), "J and K are squeezed from one transcript");
    assert!(chained(5, 4) && chained(6, 5) && chained(7, 6), "C and D come from one cipher object");
    let mut c = 8;
    while c < ncalls {
        assert!(chained(c, if c == 8 { 3 } else { c - 1 }), "the coefficient stream continues the transcript that absorbed A, M and R (after J and K)");
        c += 1;
    }
    if t == 1 {
        // degree-0 polynomial: the value is the key element K || 0^8 itself (threshold 1
        // protects nothing, by definition); K is the PRF output of call 3
        assert!(u64_at(&e, 32) == unsafe { RO_OUT[3][0] } && u64_at(&e, 40) == unsafe { RO_OUT[3][1] } && u64_at(&e, 48) == 0);
    }
    kani::cover!(true, "reached");
    core::mem::forget(e);
}
adss_stubs! { #[kani::unwind(5)] fn c16_structure_m1_r1_t1() { share_structure(1, 1, 1) } }
adss_stubs! { #[kani::unwind(5)] fn c16_structure_m4_r4_t2() { share_structure(4, 4, 2) } }
adss_stubs! { #[kani::unwind(5)] fn c16_structure_m0_r0_t1() { share_structure(0, 0, 1) } }
adss_stubs! { #[kani::unwind(5)] fn c16_structure_m4_r0_t3() { share_structure(4, 0, 3) } }

macro_rules! rec_stubs {
    ($(#[$m:meta])* fn $name:ident() $body:block) => {
        adss_stubs! {
            #[kani::stub(star_sharks::Sharks::recover, sharks_recover_ref)]
            $(#[$m])*
            fn $name() $body
        }
    };
}

macro_rules! honestkey_stubs {
    ($(#[$m:meta])* fn $name:ident() $body:block) => {
        adss_stubs! {
            #[kani::stub(star_sharks::Sharks::recover, sharks_recover_honest_key)]
            $(#[$m])*
            fn $name() $body
        }
    };
}

macro_rules! anykey_stubs {
    ($(#[$m:meta])* fn $name:ident() $body:block) => {
        adss_stubs! {
            #[kani::stub(star_sharks::Sharks::recover, sharks_recover_any_key)]
            $(#[$m])*
            fn $name() $body
        }
    };
}

/// threshold 1: the single share recovers exactly the message.  The Shamir layer is replaced
/// by "returns the honest key K||0" (that a threshold-1 share carries K||0 as its value is
/// `c16_structure_*_t1`; that `Sharks::recover` hands that value back for t = 1 is Engine M's
/// recover-structure + `c06_interpolate_t1`): with the real `interpolate` in the same harness
/// CBMC ran out of 50 GB.
fn recover_t1(ml: usize, rl: usize) {
    let m: [u8; 8] = kani::any();
    let r: [u8; 8] = kani::any();
    ro_reset();
    let sh = adss::Commune::new(1, m[..ml].to_vec(), r[..rl].to_vec(), None).share().unwrap();
    let v = [sh];
    let c = adss::recover(&v);
    assert!(c.is_ok(), "a threshold-1 share recovers");
    let got = c.as_ref().unwrap().get_message();
    assert!(got.len() == ml);
    let mut i = 0;
    while i < ml {
        assert!(got[i] == m[i], "recovered message is the shared message");
        i += 1;
    }
    kani::cover!(true, "reached");
    core::mem::forget((v, c, got));
}
honestkey_stubs! { #[kani::unwind(5)] fn c16_recover_t1_m1_r1() { recover_t1(1, 1) } }
honestkey_stubs! { #[kani::unwind(5)] fn c16_recover_t1_m4_r0() { recover_t1(4, 0) } }
honestkey_stubs! { #[kani::unwind(5)] fn c16_recover_t1_m0_r4() { recover_t1(0, 4) } }

/// a share made under a custom transcript is rejected by `recover` (default transcript)
fn custom_transcript() {
    let m: [u8; 2] = kani::any();
    let r: [u8; 2] = kani::any();
    ro_reset();
    let tr = strobe_rs::Strobe::new(b"other", strobe_rs::SecParam::B128);
    let sh = adss::Commune::new(1, m.to_vec(), r.to_vec(), Some(tr)).share().unwrap();
    let v = [sh];
    let c = adss::recover(&v);
    assert!(c.is_err(), "shares created under a different authenticated transcript are rejected");
    kani::cover!(true, "reached");
    core::mem::forget((v, c));
}
honestkey_stubs! { #[kani::unwind(5)] fn c16_custom_transcript_rejected() { custom_transcript() } }

/// threshold 0 never recovers: interpolation over zero shares fails and the error is
/// propagated before anything is decrypted
fn threshold_zero() {
    let m: [u8; 2] = kani::any();
    ro_reset();
    let sh = adss::Commune::new(0, m.to_vec(), m.to_vec(), None).share();
    // a threshold-0 dealer has no polynomial coefficients at all: sharing itself may fail or
    // produce a share; in either case nothing recovers
    if let Ok(s) = sh {
        let v = [s];
        let before = unsafe { RO_N };
        let c = adss::recover(&v);
        assert!(c.is_err(), "threshold 0 never recovers");
        assert!(unsafe { RO_N } == before, "refused before any decryption");
        core::mem::forget((v, c));
    }
    kani::cover!(true, "reached");
}
rec_stubs! { #[kani::unwind(5)] fn c16_threshold_zero() { threshold_zero() } }

// ---------------------------------------------------------------------------
// C05: one field of the ciphertext-supplying share altered
// ---------------------------------------------------------------------------
/// honest threshold-1 sharing of (m, r); exactly one field of the ciphertext-supplying
/// share — which = 0: threshold, 1: encrypted message C, 2: encrypted coins D, 3: tag J —
/// is replaced by arbitrary different content of the same length (this subsumes every bit
/// or byte fault at every position); built through the cfg(kani) hook
/// `Share::verif_from_parts`, no byte encoding involved.  Threshold fault: the Shamir layer
/// is an arbitrary function (rejected whatever key comes back).  C / D / J faults: the
/// Shamir layer returns the honest key (single-field fault).  Altered points / values
/// (x, y) only change the key and are covered by `c05_any_interpolated_key`.
fn fault(which: u8) {
    let m: [u8; 2] = kani::any();
    let r: [u8; 2] = kani::any();
    let nt: u32 = kani::any();
    let nc: [u8; 2] = kani::any();
    let nj: [u8; 64] = kani::any();
    ro_reset();
    let sh = adss::Commune::new(1, m.to_vec(), r.to_vec(), None).share().unwrap();
    let (t, s, c, d, j) = sh.verif_parts();
    assert!(t == 1 && c.len() == 2 && d.len() == 2);
    let f = match which {
        0 => {
            kani::assume(nt != t);
            adss::Share::verif_from_parts(nt, s.clone(), c.to_vec(), d.to_vec(), *j)
        }
        1 => {
            kani::assume(nc[0] != c[0] || nc[1] != c[1]);
            adss::Share::verif_from_parts(t, s.clone(), nc.to_vec(), d.to_vec(), *j)
        }
        2 => {
            kani::assume(nc[0] != d[0] || nc[1] != d[1]);
            adss::Share::verif_from_parts(t, s.clone(), c.to_vec(), nc.to_vec(), *j)
        }
        _ => {
            let mut diff = false;
            let mut i = 0;
            while i < 64 {
                diff |= nj[i] != j[i];
                i += 1;
            }
            kani::assume(diff);
            adss::Share::verif_from_parts(t, s.clone(), c.to_vec(), d.to_vec(), nj)
        }
    };
    let v = [f];
    let c2 = adss::recover(&v);
    assert!(c2.is_err(), "an altered threshold / encrypted message / encrypted coins / tag of the ciphertext-supplying share is always rejected");
    kani::cover!(true, "rejected");
    core::mem::forget((v, c2, sh));
}
anykey_stubs! { #[kani::unwind(5)] fn c05_fault_threshold() { fault(0) } }
// single-field faults of C / D / J: the key path is untouched, so interpolation yields the
// honest key (with an attacker-chosen key *and* a matching tag the attacker would simply
// present a consistent sharing of his own: that is two altered fields)
honestkey_stubs! { #[kani::unwind(5)] fn c05_fault_c() { fault(1) } }
honestkey_stubs! { #[kani::unwind(5)] fn c05_fault_d() { fault(2) } }
honestkey_stubs! { #[kani::unwind(5)] fn c05_fault_j() { fault(3) } }

/// the key supplied by interpolation is arbitrary (any mixture of foreign / altered /
/// surplus points): recovery still returns an error or exactly the first share's message
fn any_key() {
    let m: [u8; 2] = kani::any();
    let r: [u8; 2] = kani::any();
    ro_reset();
    let sh = adss::Commune::new(2, m.to_vec(), r.to_vec(), None).share().unwrap();
    let v = [sh];
    let c = adss::recover(&v);
    if let Ok(cm) = &c {
        let got = cm.get_message();
        assert!(got.len() == 2 && got[0] == m[0] && got[1] == m[1], "recovery never returns another message");
        kani::cover!(true, "accepted with the original message");
        core::mem::forget(got);
    } else {
        kani::cover!(true, "rejected");
    }
    core::mem::forget((v, c));
}
anykey_stubs! { #[kani::unwind(5)] fn c05_any_interpolated_key() { any_key() } }

/// whenever the Shamir layer refuses (fewer than threshold distinct shares: decided from the
/// MIR of `Sharks::recover`), `adss::recover` refuses too, before touching any ciphertext
fn gate() {
    let m: [u8; 2] = kani::any();
    ro_reset();
    let sh = adss::Commune::new(2, m.to_vec(), m.to_vec(), None).share().unwrap();
    let v = [sh];
    let before = unsafe { RO_N };
    let c = adss::recover(&v);
    assert!(c.is_err(), "a refusal of the Shamir layer is propagated");
    assert!(unsafe { RO_N } == before, "refused before any decryption");
    kani::cover!(true, "reached");
    core::mem::forget((v, c));
}
adss_stubs! {
    #[kani::stub(star_sharks::Sharks::recover, sharks_recover_err)]
    #[kani::unwind(5)]
    fn c02_gate_refusal_propagates() { gate() }
}

// ---------------------------------------------------------------------------
// C01 / C02: what adss::recover hands to the Shamir layer
// ---------------------------------------------------------------------------
/// three shares with arbitrary points (any equality pattern, any order), the first share's
/// threshold t in 1..=3: the Shamir layer is called with threshold t and receives at least
/// min(t, #distinct points of the selection) distinct points — repeated or surplus reports
/// never crowd out a distinct share, and the threshold is the recorded one
fn selection3(tc: u32) {
    let x0: [u64; 3] = kani::any();
    let x1: [u64; 3] = kani::any();
    let x2: [u64; 3] = kani::any();
    let t: u32 = kani::any();
    let t1: u32 = kani::any();
    let t2: u32 = kani::any();
    kani::assume(t >= 1 && t <= 3);
    // tc != 0: the first share's threshold is this concrete value (keeps loops over it concrete)
    let t = if tc != 0 { tc } else { t };
    let mk = |x: [u64; 3], t: u32| {
        adss::Share::verif_from_parts(t, star_sharks::Share { x: fp_from_limbs(x), y: Vec::new() }, Vec::new(), Vec::new(), [0u8; 64])
    };
    let v = [mk(x0, t), mk(x1, t1), mk(x2, t2)];
    let eq = |a: [u64; 3], b: [u64; 3]| a[0] == b[0] && a[1] == b[1] && a[2] == b[2];
    let e01 = eq(x0, x1);
    let e02 = eq(x0, x2);
    let e12 = eq(x1, x2);
    let distinct: usize = 1 + (!e01) as usize + (!e02 && !e12) as usize;
    let c = adss::recover(&v);
    assert!(c.is_err());
    let (rt, rn, rd, calls) = unsafe { (REC_T, REC_N, REC_DISTINCT, REC_CALLS) };
    assert!(calls == 1, "the Shamir layer is consulted");
    assert!(rt == t, "with the threshold recorded in the first share");
    let need = if (t as usize) < distinct { t as usize } else { distinct };
    assert!(rd >= need, "and receives every distinct point it needs: repeated or surplus shares never crowd out a distinct one");
    assert!(rn <= 3);
    kani::cover!(distinct == 2 && t == 2 && e01, "repeat first");
    kani::cover!(distinct == 3 && t == 2, "surplus");
    kani::cover!(distinct == 1 && t == 2, "too few");
    core::mem::forget((v, c));
}
#[kani::proof]
#[kani::stub(star_sharks::Sharks::recover, sharks_recover_record)]
#[kani::stub(zeroize::optimization_barrier, barrier_noop)]
#[kani::stub(<adss::AccessStructure as core::ops::Drop>::drop, drop_noop_access)]
#[kani::stub(<adss::Commune as core::ops::Drop>::drop, drop_noop_commune)]
#[kani::unwind(6)]
fn c01_selection_reaches_shamir_3() { selection3(0) }
#[kani::proof]
#[kani::stub(star_sharks::Sharks::recover, sharks_recover_record)]
#[kani::stub(zeroize::optimization_barrier, barrier_noop)]
#[kani::stub(<adss::AccessStructure as core::ops::Drop>::drop, drop_noop_access)]
#[kani::stub(<adss::Commune as core::ops::Drop>::drop, drop_noop_commune)]
#[kani::unwind(6)]
fn c01_selection_reaches_shamir_3_t2() { selection3(2) }
