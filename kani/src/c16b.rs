//! C16 / C05 / C02 / C03 — single-sharing harnesses over the real adss code in the
//! collision-free random-oracle model of the permutation (explicit style, small bounds).
use crate::c16::adss_stubs;
use crate::stubs::*;

fn u64_at(b: &[u8], o: usize) -> u64 {
    u64::from_le_bytes([b[o], b[o + 1], b[o + 2], b[o + 3], b[o + 4], b[o + 5], b[o + 6], b[o + 7]])
}

/// One `share()` call, inspected against the permutation log.
/// * everything but the point and the values at it is computed before the OS draw (hence
///   is a function of (threshold, message, coins) alone), exactly t-1 coefficient draws
///   come from the transcript-seeded RNG and the single share point from the OS RNG;
/// * J is the 64-byte MAC squeezed by call 2, K the 16-byte PRF output of call 3, the
///   message and the coins are XOR-masked with the keystream of the two `send_enc` calls
///   keyed with K; nothing else of the share is a function of M / R / K in the clear.
fn share_structure(ml: usize, rl: usize, t: u32) {
    let m: [u8; 8] = kani::any();
    let r: [u8; 8] = kani::any();
    ro_reset();
    let sh = adss::Commune::new(t, m[..ml].to_vec(), r[..rl].to_vec(), None).share();
    assert!(sh.is_ok(), "sharing never fails");
    let ncalls = unsafe { RO_N };
    let tt = t as usize;
    assert!(ncalls == 8 + 3 * (tt - 1), "permutation calls: 4 (transcript, key, MAC, K) + 3 per coefficient + 4 (cipher)");
    assert!(unsafe { OS_DRAWS } == 3, "exactly one OS-random field element (3 words) per share");
    assert!(unsafe { OS_AT_RO_N } == ncalls, "the OS draw happens after every permutation call: A, C, D, J and the polynomial do not depend on it");
    assert!(unsafe { OS_AT_FP_CALLS } == tt - 1 && unsafe { FP_RANDOM_CALLS } == tt, "t-1 coefficients from the transcript RNG, then the point");
    let e = sh.unwrap().to_bytes();
    let n = 4 + 4 + 48 + 4 + ml + 4 + rl + 64;
    assert!(e.len() == n);
    // x is the OS draw
    let x = unsafe { FP_RANDOM_LOG[tt - 1] };
    assert!(u64_at(&e, 8) == x[0] && u64_at(&e, 16) == x[1] && u64_at(&e, 24) == x[2], "share point == OS draw");
    // J == output of the send_mac call (index 2)
    let jo = n - 64;
    let mut i = 0;
    while i < 64 {
        assert!(e[jo + i] == out_byte(2, i), "J is the MAC squeezed from the transcript over (A, M, R)");
        i += 1;
    }
    // C / D masked by the keystream of the two send_enc calls (calls 4..8 are the cipher:
    // new, key, send_enc(C), send_enc(D); the coefficient draws come after them)
    let a = 4;
    let mut i = 0;
    while i < ml {
        assert!(e[60 + i] == m[i] ^ out_byte(a + 2, i), "C = M xor keystream(K)");
        i += 1;
    }
    let mut i = 0;
    while i < rl {
        assert!(e[64 + ml + i] == r[i] ^ out_byte(a + 3, i), "D = R xor keystream(K, C)");
        i += 1;
    }
    if t == 1 {
        // degree-0 polynomial: the value is the key element K || 0^8 itself (threshold 1
        // protects nothing, by definition); K is the PRF output of call 3
        assert!(u64_at(&e, 32) == unsafe { RO_OUT[3][0] } && u64_at(&e, 40) == unsafe { RO_OUT[3][1] } && u64_at(&e, 48) == 0);
    }
    kani::cover!(true, "reached");
    core::mem::forget(e);
}
adss_stubs! { #[kani::unwind(5)] fn c16_structure_m1_r1_t1() { share_structure(1, 1, 1) } }
adss_stubs! { #[kani::unwind(5)] fn c16_structure_m4_r4_t2() { share_structure(4, 4, 2) } }
adss_stubs! { #[kani::unwind(5)] fn c16_structure_m0_r0_t1() { share_structure(0, 0, 1) } }
adss_stubs! { #[kani::unwind(5)] fn c16_structure_m4_r0_t3() { share_structure(4, 0, 3) } }

macro_rules! rec_stubs {
    ($(#[$m:meta])* fn $name:ident() $body:block) => {
        adss_stubs! {
            #[kani::stub(star_sharks::Sharks::recover, sharks_recover_ref)]
            $(#[$m])*
            fn $name() $body
        }
    };
}

macro_rules! anykey_stubs {
    ($(#[$m:meta])* fn $name:ident() $body:block) => {
        adss_stubs! {
            #[kani::stub(star_sharks::Sharks::recover, sharks_recover_any_key)]
            $(#[$m])*
            fn $name() $body
        }
    };
}

/// threshold 1: the single share recovers exactly the message (real interpolation with
/// the C07 field laws; `Sharks::recover`'s selection logic by its Engine-M-proved model)
fn recover_t1(ml: usize, rl: usize) {
    let m: [u8; 8] = kani::any();
    let r: [u8; 8] = kani::any();
    ro_reset();
    let sh = adss::Commune::new(1, m[..ml].to_vec(), r[..rl].to_vec(), None).share().unwrap();
    let v = [sh];
    let c = adss::recover(&v);
    assert!(c.is_ok(), "a threshold-1 share recovers");
    let got = c.as_ref().unwrap().get_message();
    assert!(got.len() == ml);
    let mut i = 0;
    while i < ml {
        assert!(got[i] == m[i], "recovered message is the shared message");
        i += 1;
    }
    kani::cover!(true, "reached");
    core::mem::forget((v, c, got));
}
rec_stubs! { #[kani::unwind(5)] fn c16_recover_t1_m1_r1() { recover_t1(1, 1) } }
rec_stubs! { #[kani::unwind(5)] fn c16_recover_t1_m4_r0() { recover_t1(4, 0) } }
rec_stubs! { #[kani::unwind(5)] fn c16_recover_t1_m0_r4() { recover_t1(0, 4) } }

/// a share made under a custom transcript is rejected by `recover` (default transcript)
fn custom_transcript() {
    let m: [u8; 2] = kani::any();
    let r: [u8; 2] = kani::any();
    ro_reset();
    let tr = strobe_rs::Strobe::new(b"other", strobe_rs::SecParam::B128);
    let sh = adss::Commune::new(1, m.to_vec(), r.to_vec(), Some(tr)).share().unwrap();
    let v = [sh];
    let c = adss::recover(&v);
    assert!(c.is_err(), "shares created under a different authenticated transcript are rejected");
    kani::cover!(true, "reached");
    core::mem::forget((v, c));
}
rec_stubs! { #[kani::unwind(5)] fn c16_custom_transcript_rejected() { custom_transcript() } }

/// threshold 0 never recovers: interpolation over zero shares fails and the error is
/// propagated before anything is decrypted
fn threshold_zero() {
    let m: [u8; 2] = kani::any();
    ro_reset();
    let sh = adss::Commune::new(0, m.to_vec(), m.to_vec(), None).share();
    // a threshold-0 dealer has no polynomial coefficients at all: sharing itself may fail or
    // produce a share; in either case nothing recovers
    if let Ok(s) = sh {
        let v = [s];
        let before = unsafe { RO_N };
        let c = adss::recover(&v);
        assert!(c.is_err(), "threshold 0 never recovers");
        assert!(unsafe { RO_N } == before, "refused before any decryption");
        core::mem::forget((v, c));
    }
    kani::cover!(true, "reached");
}
rec_stubs! { #[kani::unwind(5)] fn c16_threshold_zero() { threshold_zero() } }

// ---------------------------------------------------------------------------
// C05: one field of the ciphertext-supplying share altered
// ---------------------------------------------------------------------------
/// honest threshold-1 sharing of (m, r); the encoded share is altered in the byte range
/// [lo, hi) to arbitrary different content and decoded again; recovery returns an error or
/// exactly m; `must_reject`: the altered field is bound by the MAC, so always an error.
/// `any_key`: interpolation is replaced by an arbitrary result (covers every mixture of
/// foreign / altered points supplying the key).
fn fault(lo: usize, hi: usize, must_reject: bool) {
    let m: [u8; 2] = kani::any();
    let r: [u8; 2] = kani::any();
    let nbs: [u8; 64] = kani::any();
    ro_reset();
    let sh = adss::Commune::new(1, m.to_vec(), r.to_vec(), None).share().unwrap();
    core::mem::forget(sh);
    // The encoded share, assembled on the stack from the permutation log: this is exactly
    // what `share()` + `to_bytes()` produce (obligation c16_structure_*), without dragging
    // the heap copies of the encoder through the model checker.
    // layout (ml = rl = 2): A 0..4 | len 4..8 | x 8..32 | y 32..56 | len 56..60 | C 60..62 | len 62..66 | D 66..68 | J 68..132
    let mut e = [0u8; 132];
    e[0] = 1;
    e[4] = 48;
    let x = unsafe { FP_RANDOM_LOG[0] };
    e[8..16].copy_from_slice(&x[0].to_le_bytes());
    e[16..24].copy_from_slice(&x[1].to_le_bytes());
    e[24..32].copy_from_slice(&x[2].to_le_bytes());
    e[32..40].copy_from_slice(&unsafe { RO_OUT[3][0] }.to_le_bytes());
    e[40..48].copy_from_slice(&unsafe { RO_OUT[3][1] }.to_le_bytes());
    e[56] = 2;
    e[60] = m[0] ^ out_byte(6, 0);
    e[61] = m[1] ^ out_byte(6, 1);
    e[62] = 2;
    e[66] = r[0] ^ out_byte(7, 0);
    e[67] = r[1] ^ out_byte(7, 1);
    let mut i = 0;
    while i < 64 {
        e[68 + i] = out_byte(2, i);
        i += 1;
    }
    let mut changed = false;
    let mut i = lo;
    while i < hi {
        let nb: u8 = nbs[i - lo];
        changed |= nb != e[i];
        e[i] = nb;
        i += 1;
    }
    kani::assume(changed);
    let f = adss::Share::from_bytes(&e[..]);
    if let Some(fs) = f {
        let v = [fs];
        let c = adss::recover(&v);
        if let Ok(cm) = &c {
            assert!(!must_reject, "an altered threshold / ciphertext / coins / tag is always rejected");
            let got = cm.get_message();
            assert!(got.len() == 2 && got[0] == m[0] && got[1] == m[1], "recovery never returns another message");
            kani::cover!(true, "accepted with the original message");
            core::mem::forget(got);
        } else {
            kani::cover!(true, "rejected");
        }
        core::mem::forget((v, c));
    }
}
/// the unaltered assembled encoding recovers (vacuity / faithfulness witness of `fault`)
fn fault_none() {
    let m: [u8; 2] = kani::any();
    let r: [u8; 2] = kani::any();
    ro_reset();
    let sh = adss::Commune::new(1, m.to_vec(), r.to_vec(), None).share().unwrap();
    let real = sh.to_bytes();
    let mut e = [0u8; 132];
    e[0] = 1;
    e[4] = 48;
    let x = unsafe { FP_RANDOM_LOG[0] };
    e[8..16].copy_from_slice(&x[0].to_le_bytes());
    e[16..24].copy_from_slice(&x[1].to_le_bytes());
    e[24..32].copy_from_slice(&x[2].to_le_bytes());
    e[32..40].copy_from_slice(&unsafe { RO_OUT[3][0] }.to_le_bytes());
    e[40..48].copy_from_slice(&unsafe { RO_OUT[3][1] }.to_le_bytes());
    e[56] = 2;
    e[60] = m[0] ^ out_byte(6, 0);
    e[61] = m[1] ^ out_byte(6, 1);
    e[62] = 2;
    e[66] = r[0] ^ out_byte(7, 0);
    e[67] = r[1] ^ out_byte(7, 1);
    let mut i = 0;
    while i < 64 {
        e[68 + i] = out_byte(2, i);
        i += 1;
    }
    assert!(real.len() == 132);
    let mut i = 0;
    while i < 132 {
        assert!(real[i] == e[i], "the assembled encoding is the real encoding of the share");
        i += 1;
    }
    kani::cover!(true, "reached");
    core::mem::forget((sh, real));
}
rec_stubs! { #[kani::unwind(5)] fn c05_fault_model_faithful() { fault_none() } }
// The Shamir layer is an arbitrary function here (`sharks_recover_any_key`): an altered
// threshold / C / D / J must be rejected *whatever* key interpolation yields, and altered
// points or values (x, y) only change that key, which `c05_any_interpolated_key` covers.
anykey_stubs! { #[kani::unwind(5)] fn c05_fault_threshold() { fault(0, 4, true) } }
anykey_stubs! { #[kani::unwind(5)] fn c05_fault_c() { fault(60, 62, true) } }
anykey_stubs! { #[kani::unwind(5)] fn c05_fault_d() { fault(66, 68, true) } }
anykey_stubs! { #[kani::unwind(5)] fn c05_fault_j() { fault(68, 132, true) } }

/// the key supplied by interpolation is arbitrary (any mixture of foreign / altered /
/// surplus points): recovery still returns an error or exactly the first share's message
fn any_key() {
    let m: [u8; 2] = kani::any();
    let r: [u8; 2] = kani::any();
    ro_reset();
    let sh = adss::Commune::new(2, m.to_vec(), r.to_vec(), None).share().unwrap();
    let v = [sh];
    let c = adss::recover(&v);
    if let Ok(cm) = &c {
        let got = cm.get_message();
        assert!(got.len() == 2 && got[0] == m[0] && got[1] == m[1], "recovery never returns another message");
        kani::cover!(true, "accepted with the original message");
        core::mem::forget(got);
    } else {
        kani::cover!(true, "rejected");
    }
    core::mem::forget((v, c));
}
anykey_stubs! { #[kani::unwind(5)] fn c05_any_interpolated_key() { any_key() } }

/// fewer than threshold distinct shares: `adss::recover` propagates the refusal of the
/// Shamir layer before touching any ciphertext (C02 counting gate, adss level)
fn gate() {
    let m: [u8; 2] = kani::any();
    ro_reset();
    let sh = adss::Commune::new(2, m.to_vec(), m.to_vec(), None).share().unwrap();
    let v = [sh.clone(), sh];
    let before = unsafe { RO_N };
    let c = adss::recover(&v);
    assert!(c.is_err(), "one distinct share (repeated) under threshold 2 never recovers");
    assert!(unsafe { RO_N } == before, "refused before any decryption");
    kani::cover!(true, "reached");
    core::mem::forget((v, c));
}
rec_stubs! { #[kani::unwind(5)] fn c02_gate_repeated_share() { gate() } }


rec_stubs! { #[kani::unwind(5)] fn probe_interp_laws() {
    ro_reset();
    let x: [u64; 3] = kani::any();
    let y: [u64; 3] = kani::any();
    kani::assume(limbs_lt_p(&x) && limbs_lt_p(&y));
    let v = vec![star_sharks::Share { x: fp_from_limbs(x), y: vec![fp_from_limbs(y)] }];
    let sh = star_sharks::Sharks(1);
    let r = sh.recover(&v);
    kani::cover!(r.is_ok(), "ok");
    kani::cover!(r.is_err(), "err");
    if let Ok(b) = &r {
        assert!(b.len() == 24);
        assert!(u64::from_le_bytes([b[0], b[1], b[2], b[3], b[4], b[5], b[6], b[7]]) == y[0], "t = 1 interpolation returns the value");
    }
    core::mem::forget((r, v));
} }
