//! Replay cases, one function per counterexample family.
//! Each returns Ok(None) = property holds here, Ok(Some(msg)) = violation reproduced.
use crate::{catch, get_hex};
use serde_json::Value;
use std::convert::TryFrom;

pub fn dispatch(kind: &str, case: &Value) -> Result<Option<String>, String> {
    match kind {
        "panic_decode" => panic_decode(case),
        "fp_op" => fp_op(case),
        "fp_eval" => fp_eval(case),
        "fp_const" => fp_const(case),
        _ => Err(format!("unknown case kind {:?}", kind)),
    }
}

/// C09: a decoder / consumer of foreign bytes must not panic.
fn panic_decode(case: &Value) -> Result<Option<String>, String> {
    let f = case["fn"].as_str().ok_or("fn")?.to_string();
    let b = get_hex(case, "bytes");
    let r = match f.as_str() {
        "adss::load_bytes" => catch(|| {
            let _ = adss::load_bytes(&b);
            let _ = adss::load_u32(&b);
            let _ = adss::AccessStructure::from_bytes(&b);
        }),
        "star_sharks::Share::try_from" => catch(|| {
            let _ = star_sharks::Share::try_from(&b[..]);
        }),
        "sta_rs::Share::from_bytes" => catch(|| {
            let _ = sta_rs::Share::from_bytes(&b);
            let _ = adss::Share::from_bytes(&b);
        }),
        "sta_rs::Message::from_bytes" => catch(|| {
            let _ = sta_rs::Message::from_bytes(&b);
        }),
        _ => return Err(format!("unknown fn {}", f)),
    };
    Ok(r.err().map(|m| format!("{} panicked on {} bytes: {}", f, b.len(), m)))
}

// ---------------------------------------------------------------------------
// C07: field operations on raw (Montgomery) limbs
// ---------------------------------------------------------------------------
use ff::{Field, PrimeField};
use star_sharks::{Fp, FpRepr};

fn limbs_of(v: &Value) -> Result<[u64; 3], String> {
    let a = v.as_array().ok_or("limbs")?;
    let mut o = [0u64; 3];
    for i in 0..3 {
        o[i] = a[i].as_str().ok_or("limb str")?.parse::<u64>().map_err(|e| e.to_string())?;
    }
    Ok(o)
}
fn fp_raw(l: [u64; 3]) -> Fp {
    // Fp is a tuple struct around [u64; 3] (checked by the repository's element_length test)
    unsafe { core::mem::transmute::<[u64; 3], Fp>(l) }
}
fn raw_of(f: Fp) -> [u64; 3] {
    let v: Vec<u64> = f.into();
    [v[0], v[1], v[2]]
}

/// evaluates one operation of the real field type; result as a JSON value
pub fn fp_apply(op: &str, case: &Value) -> Result<Value, String> {
    let get = |k: &str| -> Result<Fp, String> { Ok(fp_raw(limbs_of(&case[k])?)) };
    let out_l = |f: Fp| -> Value {
        let l = raw_of(f);
        serde_json::json!([l[0].to_string(), l[1].to_string(), l[2].to_string()])
    };
    Ok(match op {
        "add" => out_l(get("a")? + get("b")?),
        "sub" => out_l(get("a")? - get("b")?),
        "mul" => out_l(get("a")? * get("b")?),
        "neg" => out_l(-get("a")?),
        "double" => out_l(get("a")?.double()),
        "square" => out_l(get("a")?.square()),
        "invert" => {
            let r = get("a")?.invert();
            if bool::from(r.is_some()) { out_l(r.unwrap()) } else { Value::Null }
        }
        "sqrt" => {
            let r = get("a")?.sqrt();
            if bool::from(r.is_some()) { out_l(r.unwrap()) } else { Value::Null }
        }
        "pow" => {
            let e = case["e"].as_str().ok_or("e")?.parse::<u64>().map_err(|e| e.to_string())?;
            out_l(get("a")?.pow([e]))
        }
        "from_u64" => {
            let v = case["v"].as_str().ok_or("v")?.parse::<u64>().map_err(|e| e.to_string())?;
            out_l(Fp::from(v))
        }
        "to_repr" => {
            let r = get("a")?.to_repr();
            Value::String(r.as_ref().iter().map(|b| format!("{:02x}", b)).collect())
        }
        "from_repr" => {
            let b = get_hex(case, "bytes");
            let mut a = [0u8; 24];
            a.copy_from_slice(&b);
            let r = Fp::from_repr(FpRepr(a));
            if bool::from(r.is_some()) { out_l(r.unwrap()) } else { Value::Null }
        }
        "eq" => Value::Bool(get("a")? == get("b")?),
        "cmp" => Value::String(format!("{:?}", get("a")?.cmp(&get("b")?))),
        "is_odd" => Value::Bool(bool::from(get("a")?.is_odd())),
        "const" => {
            let n = case["name"].as_str().ok_or("name")?;
            match n {
                "ZERO" => out_l(Fp::ZERO),
                "ONE" => out_l(Fp::ONE),
                "TWO_INV" => out_l(Fp::TWO_INV),
                "MULTIPLICATIVE_GENERATOR" => out_l(Fp::MULTIPLICATIVE_GENERATOR),
                "ROOT_OF_UNITY" => out_l(Fp::ROOT_OF_UNITY),
                "ROOT_OF_UNITY_INV" => out_l(Fp::ROOT_OF_UNITY_INV),
                "DELTA" => out_l(Fp::DELTA),
                "NUM_BITS" => Value::String(Fp::NUM_BITS.to_string()),
                "CAPACITY" => Value::String(Fp::CAPACITY.to_string()),
                "S" => Value::String(Fp::S.to_string()),
                "MODULUS" => Value::String(Fp::MODULUS.to_string()),
                _ => return Err(format!("const {}", n)),
            }
        }
        _ => return Err(format!("unknown op {}", op)),
    })
}

/// one operation with the value expected by the checker's independent big-integer model
fn fp_op(case: &Value) -> Result<Option<String>, String> {
    let op = case["op"].as_str().ok_or("op")?.to_string();
    let c2 = case.clone();
    let got = catch(move || fp_apply(&op, &c2));
    match got {
        Err(p) => Ok(Some(format!("{} panicked: {}", case["op"], p))),
        Ok(Err(e)) => Err(e),
        Ok(Ok(v)) => {
            if v == case["expect"] {
                Ok(None)
            } else {
                Ok(Some(format!("{} on {}: real code returns {} but big-integer model mod 2^128+12451 gives {}",
                    case["op"], case, v, case["expect"])))
            }
        }
    }
}

/// batch evaluation (translator validation): prints one JSON array of results
fn fp_eval(case: &Value) -> Result<Option<String>, String> {
    let mut out = Vec::new();
    for c in case["cases"].as_array().ok_or("cases")? {
        let op = c["op"].as_str().ok_or("op")?.to_string();
        let c2 = c.clone();
        let r = catch(move || fp_apply(&op, &c2));
        out.push(match r {
            Ok(Ok(v)) => v,
            Ok(Err(e)) => return Err(e),
            Err(p) => Value::String(format!("PANIC:{}", p)),
        });
    }
    println!("FP_EVAL {}", Value::Array(out));
    Ok(None)
}

/// published constants have the meaning the field interface assigns to them
/// (evaluated with the real field operations, which C07 checks separately)
fn fp_const(_case: &Value) -> Result<Option<String>, String> {
    let r = catch(|| {
        let mut bad: Vec<String> = Vec::new();
        let one = Fp::ONE;
        let g = Fp::MULTIPLICATIVE_GENERATOR;
        // (p-1)/2 = 2^127 + 6225, little-endian u64 limbs
        let q: [u64; 3] = [6225, 1u64 << 63, 0];
        if Fp::TWO_INV.double() != one { bad.push("2*TWO_INV != 1".into()); }
        if g.pow(q) != -one { bad.push("MULTIPLICATIVE_GENERATOR^((p-1)/2) != -1: not a generator / is a quadratic residue".into()); }
        if Fp::ROOT_OF_UNITY != g.pow(q) || Fp::ROOT_OF_UNITY != -one { bad.push("ROOT_OF_UNITY is not the primitive 2^S-th root g^t = -1".into()); }
        if Fp::ROOT_OF_UNITY * Fp::ROOT_OF_UNITY_INV != one { bad.push("ROOT_OF_UNITY*ROOT_OF_UNITY_INV != 1".into()); }
        if Fp::DELTA != g.square() { bad.push("DELTA != g^(2^S)".into()); }
        if Fp::NUM_BITS != 129 || Fp::CAPACITY != 128 || Fp::S != 1 { bad.push("NUM_BITS/CAPACITY/S".into()); }
        if Fp::MODULUS != "0x1000000000000000000000000000030a3" { bad.push("MODULUS string".into()); }
        if bool::from(Fp::ZERO.invert().is_some()) || !Fp::ZERO.is_zero_vartime() { bad.push("ZERO".into()); }
        bad
    });
    match r {
        Err(p) => Ok(Some(format!("constant evaluation panicked: {}", p))),
        Ok(bad) if bad.is_empty() => Ok(None),
        Ok(bad) => Ok(Some(format!("field constants: {}", bad.join("; ")))),
    }
}
