//! Replay cases, one function per counterexample family.
//! Each returns Ok(None) = property holds here, Ok(Some(msg)) = violation reproduced.
use crate::{catch, get_hex};
use serde_json::Value;
use std::convert::TryFrom;

pub fn dispatch(kind: &str, case: &Value) -> Result<Option<String>, String> {
    match kind {
        "panic_decode" => panic_decode(case),
        "fp_op" => fp_op(case),
        "fp_eval" => fp_eval(case),
        "fp_const" => fp_const(case),
        "recover_eval" => recover_eval(case),
        "recover_case" => recover_case(case),
        "c04_triples" => c04_triples(case),
        "c04_ske" => c04_ske(case),
        "c04_digest" => c04_digest(case),
        "c03_reuse" => c03_reuse(case),
        "c03_masking" => c03_masking(case),
        "adss_scenario" => adss_scenario(case),
        "c08_decode" => c08_decode(case),
        "ggm_history" => ggm_history(case),
        "c08_store" => c08_store(case),
        "star_e2e" => star_e2e(case),
        "adss_coeffs" => adss_coeffs(case),
        "gen_script" => gen_script(case),
        "c09_foreign" => c09_foreign(case),
        "dealer_draws" => dealer_draws(case),
        "dealer_model" => dealer_model(case),
        "server_history" => server_history(case),
        "adss_mixed" => adss_mixed(case),
        "ggm_sweep" => ggm_sweep(case),
        _ => Err(format!("unknown case kind {:?}", kind)),
    }
}

/// C09: a decoder / consumer of foreign bytes must not panic.
fn panic_decode(case: &Value) -> Result<Option<String>, String> {
    let f = case["fn"].as_str().ok_or("fn")?.to_string();
    let b = get_hex(case, "bytes");
    let r = match f.as_str() {
        "adss::load_bytes" => catch(|| {
            let _ = adss::load_bytes(&b);
            let _ = adss::load_u32(&b);
            let _ = adss::AccessStructure::from_bytes(&b);
        }),
        "star_sharks::Share::try_from" => catch(|| {
            let _ = star_sharks::Share::try_from(&b[..]);
        }),
        "sta_rs::Share::from_bytes" => catch(|| {
            let _ = sta_rs::Share::from_bytes(&b);
            let _ = adss::Share::from_bytes(&b);
        }),
        "sta_rs::Message::from_bytes" => catch(|| {
            let _ = sta_rs::Message::from_bytes(&b);
        }),
        _ => return Err(format!("unknown fn {}", f)),
    };
    Ok(r.err().map(|m| format!("{} panicked on {} bytes: {}", f, b.len(), m)))
}

// ---------------------------------------------------------------------------
// C07: field operations on raw (Montgomery) limbs
// ---------------------------------------------------------------------------
use ff::{Field, PrimeField};
use star_sharks::{Fp, FpRepr};

fn limbs_of(v: &Value) -> Result<[u64; 3], String> {
    let a = v.as_array().ok_or("limbs")?;
    let mut o = [0u64; 3];
    for i in 0..3 {
        o[i] = a[i].as_str().ok_or("limb str")?.parse::<u64>().map_err(|e| e.to_string())?;
    }
    Ok(o)
}
fn fp_raw(l: [u64; 3]) -> Fp {
    // Fp is a tuple struct around [u64; 3] (checked by the repository's element_length test)
    unsafe { core::mem::transmute::<[u64; 3], Fp>(l) }
}
fn raw_of(f: Fp) -> [u64; 3] {
    let v: Vec<u64> = f.into();
    [v[0], v[1], v[2]]
}

/// evaluates one operation of the real field type; result as a JSON value
pub fn fp_apply(op: &str, case: &Value) -> Result<Value, String> {
    let get = |k: &str| -> Result<Fp, String> { Ok(fp_raw(limbs_of(&case[k])?)) };
    let out_l = |f: Fp| -> Value {
        let l = raw_of(f);
        serde_json::json!([l[0].to_string(), l[1].to_string(), l[2].to_string()])
    };
    Ok(match op {
        "add" => out_l(get("a")? + get("b")?),
        "sub" => out_l(get("a")? - get("b")?),
        "mul" => out_l(get("a")? * get("b")?),
        "neg" => out_l(-get("a")?),
        "double" => out_l(get("a")?.double()),
        "square" => out_l(get("a")?.square()),
        "invert" => {
            let r = get("a")?.invert();
            if bool::from(r.is_some()) { out_l(r.unwrap()) } else { Value::Null }
        }
        "sqrt" => {
            let r = get("a")?.sqrt();
            if bool::from(r.is_some()) { out_l(r.unwrap()) } else { Value::Null }
        }
        "pow" => {
            let e = case["e"].as_str().ok_or("e")?.parse::<u64>().map_err(|e| e.to_string())?;
            out_l(get("a")?.pow([e]))
        }
        "from_u64" => {
            let v = case["v"].as_str().ok_or("v")?.parse::<u64>().map_err(|e| e.to_string())?;
            out_l(Fp::from(v))
        }
        "to_repr" => {
            let r = get("a")?.to_repr();
            Value::String(r.as_ref().iter().map(|b| format!("{:02x}", b)).collect())
        }
        "from_repr" => {
            let b = get_hex(case, "bytes");
            let mut a = [0u8; 24];
            a.copy_from_slice(&b);
            let r = Fp::from_repr(FpRepr(a));
            if bool::from(r.is_some()) { out_l(r.unwrap()) } else { Value::Null }
        }
        "eq" => Value::Bool(get("a")? == get("b")?),
        "cmp" => Value::String(format!("{:?}", get("a")?.cmp(&get("b")?))),
        "is_odd" => Value::Bool(bool::from(get("a")?.is_odd())),
        "const" => {
            let n = case["name"].as_str().ok_or("name")?;
            match n {
                "ZERO" => out_l(Fp::ZERO),
                "ONE" => out_l(Fp::ONE),
                "TWO_INV" => out_l(Fp::TWO_INV),
                "MULTIPLICATIVE_GENERATOR" => out_l(Fp::MULTIPLICATIVE_GENERATOR),
                "ROOT_OF_UNITY" => out_l(Fp::ROOT_OF_UNITY),
                "ROOT_OF_UNITY_INV" => out_l(Fp::ROOT_OF_UNITY_INV),
                "DELTA" => out_l(Fp::DELTA),
                "NUM_BITS" => Value::String(Fp::NUM_BITS.to_string()),
                "CAPACITY" => Value::String(Fp::CAPACITY.to_string()),
                "S" => Value::String(Fp::S.to_string()),
                "MODULUS" => Value::String(Fp::MODULUS.to_string()),
                _ => return Err(format!("const {}", n)),
            }
        }
        _ => return Err(format!("unknown op {}", op)),
    })
}

/// one operation with the value expected by the checker's independent big-integer model
fn fp_op(case: &Value) -> Result<Option<String>, String> {
    let op = case["op"].as_str().ok_or("op")?.to_string();
    let c2 = case.clone();
    let got = catch(move || fp_apply(&op, &c2));
    match got {
        Err(p) => Ok(Some(format!("{} panicked: {}", case["op"], p))),
        Ok(Err(e)) => Err(e),
        Ok(Ok(v)) => {
            if v == case["expect"] {
                Ok(None)
            } else {
                Ok(Some(format!("{} on {}: real code returns {} but big-integer model mod 2^128+12451 gives {}",
                    case["op"], case, v, case["expect"])))
            }
        }
    }
}

/// batch evaluation (translator validation): prints one JSON array of results
fn fp_eval(case: &Value) -> Result<Option<String>, String> {
    let mut out = Vec::new();
    for c in case["cases"].as_array().ok_or("cases")? {
        let op = c["op"].as_str().ok_or("op")?.to_string();
        let c2 = c.clone();
        let r = catch(move || fp_apply(&op, &c2));
        out.push(match r {
            Ok(Ok(v)) => v,
            Ok(Err(e)) => return Err(e),
            Err(p) => Value::String(format!("PANIC:{}", p)),
        });
    }
    println!("FP_EVAL {}", Value::Array(out));
    Ok(None)
}

/// published constants have the meaning the field interface assigns to them
/// (evaluated with the real field operations, which C07 checks separately)
fn fp_const(_case: &Value) -> Result<Option<String>, String> {
    let r = catch(|| {
        let mut bad: Vec<String> = Vec::new();
        let one = Fp::ONE;
        let g = Fp::MULTIPLICATIVE_GENERATOR;
        // (p-1)/2 = 2^127 + 6225, little-endian u64 limbs
        let q: [u64; 3] = [6225, 1u64 << 63, 0];
        if Fp::TWO_INV.double() != one { bad.push("2*TWO_INV != 1".into()); }
        if g.pow(q) != -one { bad.push("MULTIPLICATIVE_GENERATOR^((p-1)/2) != -1: not a generator / is a quadratic residue".into()); }
        if Fp::ROOT_OF_UNITY != g.pow(q) || Fp::ROOT_OF_UNITY != -one { bad.push("ROOT_OF_UNITY is not the primitive 2^S-th root g^t = -1".into()); }
        if Fp::ROOT_OF_UNITY * Fp::ROOT_OF_UNITY_INV != one { bad.push("ROOT_OF_UNITY*ROOT_OF_UNITY_INV != 1".into()); }
        if Fp::DELTA != g.square() { bad.push("DELTA != g^(2^S)".into()); }
        if Fp::NUM_BITS != 129 || Fp::CAPACITY != 128 || Fp::S != 1 { bad.push("NUM_BITS/CAPACITY/S".into()); }
        if Fp::MODULUS != "0x1000000000000000000000000000030a3" { bad.push("MODULUS string".into()); }
        if bool::from(Fp::ZERO.invert().is_some()) || !Fp::ZERO.is_zero_vartime() { bad.push("ZERO".into()); }
        bad
    });
    match r {
        Err(p) => Ok(Some(format!("constant evaluation panicked: {}", p))),
        Ok(bad) if bad.is_empty() => Ok(None),
        Ok(bad) => Ok(Some(format!("field constants: {}", bad.join("; ")))),
    }
}

// ---------------------------------------------------------------------------
// C06 / C02: Sharks::recover on small concrete share lists
// ---------------------------------------------------------------------------
fn shares_of(c: &Value) -> Result<Vec<star_sharks::Share>, String> {
    let mut v = Vec::new();
    for s in c["shares"].as_array().ok_or("shares")? {
        // x: small integer, or "hex:<48 hex digits>" = canonical 24-byte little-endian encoding
        let x = if let Some(h) = s["x"].as_str() {
            let b: Vec<u8> = (0..24).map(|i| u8::from_str_radix(&h[4 + 2 * i..6 + 2 * i], 16).unwrap_or(0)).collect();
            let mut a = [0u8; 24];
            a.copy_from_slice(&b);
            Option::<Fp>::from(Fp::from_repr(FpRepr(a))).ok_or("x not canonical")?
        } else {
            Fp::from(s["x"].as_u64().ok_or("x")?)
        };
        let y: Vec<Fp> = s["y"].as_array().ok_or("y")?.iter().map(|e| Fp::from(e.as_u64().unwrap_or(0))).collect();
        v.push(star_sharks::Share { x, y });
    }
    Ok(v)
}
fn recover_one(c: &Value) -> Result<Value, String> {
    let t = c["t"].as_u64().ok_or("t")? as u32;
    let v = shares_of(c)?;
    let r = catch(move || {
        let sh = star_sharks::Sharks(t);
        sh.recover(&v).map_err(|e| e.to_string())
    });
    Ok(match r {
        Err(p) => Value::String(format!("PANIC:{}", p)),
        Ok(Err(_)) => Value::String("Err".into()),
        Ok(Ok(b)) => Value::String(b.iter().map(|x| format!("{:02x}", x)).collect()),
    })
}
fn recover_eval(case: &Value) -> Result<Option<String>, String> {
    let mut out = Vec::new();
    for c in case["cases"].as_array().ok_or("cases")? {
        out.push(recover_one(c)?);
    }
    println!("RECOVER_EVAL {}", Value::Array(out));
    Ok(None)
}
fn recover_case(case: &Value) -> Result<Option<String>, String> {
    let got = recover_one(case)?;
    if got == case["expect"] {
        Ok(None)
    } else {
        Ok(Some(format!("Sharks({}).recover on {} returns {} but textbook Shamir (first t distinct points, Lagrange at 0 mod 2^128+12451) gives {}",
            case["t"], case["shares"], got, case["expect"])))
    }
}

// ---------------------------------------------------------------------------
// C04 / C03 / C05 / C16 / C08: scenario replays on the real crates (real Keccak, real RNG)
// ---------------------------------------------------------------------------
fn local_rnd(m: &[u8], e: &[u8], t: u32) -> [u8; 32] {
    local_rnd_init(m, e, t, &[])
}
/// the output buffer holds `init` (zero-padded) before the call
fn local_rnd_init(m: &[u8], e: &[u8], t: u32, init: &[u8]) -> [u8; 32] {
    let mg = sta_rs::MessageGenerator::new(sta_rs::SingleMeasurement::new(m), t, e);
    let mut r = [0u8; 32];
    for (i, b) in init.iter().take(32).enumerate() { r[i] = *b; }
    mg.sample_local_randomness(&mut r);
    r
}
fn u32_of(c: &Value, k: &str) -> u32 {
    c[k].as_u64().unwrap_or(0) as u32
}

/// two triples: randomness, tag and key are equal iff the triples are equal
pub fn c04_triples(case: &Value) -> Result<Option<String>, String> {
    let (m1, e1, t1) = (get_hex(case, "m1"), get_hex(case, "e1"), u32_of(case, "t1"));
    let (m2, e2, t2) = (get_hex(case, "m2"), get_hex(case, "e2"), u32_of(case, "t2"));
    let same = m1 == m2 && e1 == e2 && t1 == t2;
    let c2 = case.clone();
    let r = catch(move || {
        let mut bad: Vec<String> = Vec::new();
        let (i1, i2) = (if c2["init1"].is_string() { get_hex(&c2, "init1") } else { vec![] }, if c2["init2"].is_string() { get_hex(&c2, "init2") } else { vec![] });
        let r1 = local_rnd_init(&m1, &e1, t1, &i1);
        let r2 = local_rnd_init(&m2, &e2, t2, &i2);
        if (r1 == r2) != same { bad.push(format!("randomness equal={} but triples equal={}", r1 == r2, same)); }
        if t1 >= 1 && t2 >= 1 && t1 <= 8 && t2 <= 8 {
            let a = sta_rs::MessageGenerator::new(sta_rs::SingleMeasurement::new(&m1), t1, &e1).share_with_local_randomness();
            let b = sta_rs::MessageGenerator::new(sta_rs::SingleMeasurement::new(&m2), t2, &e2).share_with_local_randomness();
            if let (Ok(a), Ok(b)) = (a, b) {
                if (a.tag == b.tag) != same { bad.push(format!("tags equal={} but triples equal={}", a.tag == b.tag, same)); }
                if (a.key == b.key) != same { bad.push(format!("keys equal={} but triples equal={}", a.key == b.key, same)); }
                if same && a.share.to_bytes()[8..32] == b.share.to_bytes()[8..32] { bad.push("two independent shares have the same point".into()); }
            }
        }
        bad
    });
    match r {
        Err(p) => Ok(Some(format!("panicked: {}", p))),
        Ok(b) if b.is_empty() => Ok(None),
        Ok(b) => Ok(Some(b.join("; "))),
    }
}

pub fn c04_ske(case: &Value) -> Result<Option<String>, String> {
    let (r1, e1, r2, e2) = (get_hex(case, "r1"), get_hex(case, "e1"), get_hex(case, "r2"), get_hex(case, "e2"));
    let same = r1 == r2 && e1 == e2;
    let mut k1 = [0u8; 16];
    let mut k2 = [0u8; 16];
    // key derivation must work for every epoch byte string (the empty one included): a panic is a violation
    let (r1c, e1c, r2c, e2c) = (r1.clone(), e1.clone(), r2.clone(), e2.clone());
    match catch(move || {
        let mut a = [0u8; 16];
        let mut b = [0u8; 16];
        sta_rs::derive_ske_key(&r1c, &e1c, &mut a);
        sta_rs::derive_ske_key(&r2c, &e2c, &mut b);
        (a, b)
    }) {
        Err(p) => return Ok(Some(format!("panicked: {}", p))),
        Ok((a, b)) => { k1 = a; k2 = b; }
    }
    if (k1 == k2) != same {
        return Ok(Some(format!("derive_ske_key: keys equal={} but (r, epoch) equal={}", k1 == k2, same)));
    }
    Ok(None)
}

pub fn c04_digest(case: &Value) -> Result<Option<String>, String> {
    let (k1, k2) = (get_hex(case, "k1"), get_hex(case, "k2"));
    let (a1, a2) = (u32_of(case, "a1") as u8, u32_of(case, "a2") as u8);
    let same = k1 == k2 && a1 == a2;
    let mut o1 = [0u8; 32];
    let mut o2 = [0u8; 32];
    sta_rs::strobe_digest(&k1, &[&[a1]], "star_derive_randoms", &mut o1);
    sta_rs::strobe_digest(&k2, &[&[a2]], "star_derive_randoms", &mut o2);
    if (o1 == o2) != same {
        return Ok(Some(format!("strobe_digest: outputs equal={} but inputs equal={}", o1 == o2, same)));
    }
    Ok(None)
}

/// two reports of one measurement with different associated data: c1 ^ c2 == p1 ^ p2 ?
pub fn c03_reuse(case: &Value) -> Result<Option<String>, String> {
    let (m, e, t) = (get_hex(case, "m"), get_hex(case, "e"), u32_of(case, "t").max(1));
    let (a1, a2) = (get_hex(case, "aux1"), get_hex(case, "aux2"));
    if a1 == a2 { return Ok(None); }
    let mg = sta_rs::MessageGenerator::new(sta_rs::SingleMeasurement::new(&m), t, &e);
    let mut rnd = [0u8; 32];
    mg.sample_local_randomness(&mut rnd);
    let m1 = sta_rs::Message::generate(&mg, &rnd, Some(sta_rs::AssociatedData::new(&a1))).map_err(|e| e.to_string())?;
    let m2 = sta_rs::Message::generate(&mg, &rnd, Some(sta_rs::AssociatedData::new(&a2))).map_err(|e| e.to_string())?;
    let (c1, c2) = (m1.ciphertext.to_bytes(), m2.ciphertext.to_bytes());
    let mut p1 = Vec::new();
    sta_rs::store_bytes(&m, &mut p1);
    sta_rs::store_bytes(&a1, &mut p1);
    let mut p2 = Vec::new();
    sta_rs::store_bytes(&m, &mut p2);
    sta_rs::store_bytes(&a2, &mut p2);
    let n = c1.len().min(c2.len());
    // positions where the plaintexts differ
    let diff: Vec<usize> = (0..n).filter(|&i| p1[i] != p2[i]).collect();
    if diff.is_empty() { return Ok(None); }
    let from = case["from_offset"].as_u64().unwrap_or(0) as usize;
    let diff2: Vec<usize> = diff.iter().cloned().filter(|&i| i >= from).collect();
    if !diff2.is_empty() && diff2.iter().all(|&i| c1[i] ^ c2[i] == p1[i] ^ p2[i]) {
        return Ok(Some(format!("keystream reuse: c1^c2 == p1^p2 on all {} differing payload bytes from offset {} (two reports of one measurement, aux {:?} vs {:?})", diff2.len(), from, a1, a2)));
    }
    Ok(None)
}

/// payload bytes must not appear verbatim in the ciphertext; decrypt inverts encrypt
pub fn c03_masking(case: &Value) -> Result<Option<String>, String> {
    let (key, data) = (get_hex(case, "key"), get_hex(case, "data"));
    let c = sta_rs::Ciphertext::new(&key, &data, "star_encrypt");
    let cb = c.to_bytes();
    if cb.len() != data.len() { return Ok(Some("ciphertext length differs from payload length".into())); }
    if c.decrypt(&key, "star_encrypt") != data { return Ok(Some("decrypt(encrypt(x)) != x".into())); }
    let w = 12.min(data.len());
    if w >= 8 {
        for o in 0..=(data.len() - w) {
            if cb[o..o + w] == data[o..o + w] {
                return Ok(Some(format!("{} payload bytes appear in the clear at ciphertext offset {}", w, o)));
            }
        }
    }
    Ok(None)
}

/// honest sharing; optional alteration of the encoded first share; recovery must return an
/// error or exactly the message (and an error if `must_reject`)
pub fn adss_scenario(case: &Value) -> Result<Option<String>, String> {
    let (m, r, t) = (get_hex(case, "m"), get_hex(case, "r"), u32_of(case, "t"));
    let n = case["n_shares"].as_u64().unwrap_or(t.max(1) as u64) as usize;
    let must_reject = case["must_reject"].as_bool().unwrap_or(false);
    let expect_ok = case["expect_ok"].as_bool().unwrap_or(false);
    let custom = case["custom_transcript"].as_bool().unwrap_or(false);
    let c2 = case.clone();
    let res = catch(move || -> Result<Option<String>, String> {
        let mut shares = Vec::new();
        for _ in 0..n {
            let tr = if custom { Some(strobe_rs::Strobe::new(b"other", strobe_rs::SecParam::B128)) } else { None };
            shares.push(adss::Commune::new(t, m.clone(), r.clone(), tr).share().map_err(|e| e.to_string())?);
        }
        // wire round trip
        for s in &shares {
            let back = adss::Share::from_bytes(&s.to_bytes());
            if back.as_ref() != Some(s) { return Ok(Some("decode(encode(share)) != share".into())); }
        }
        if let Some(lo) = c2["fault_lo"].as_u64() {
            let hi = c2["fault_hi"].as_u64().unwrap_or(lo) as usize;
            let nb = get_hex(&c2, "fault_bytes");
            let mut e = shares[0].to_bytes();
            let mut changed = false;
            let flip = c2["flip"].as_bool().unwrap_or(false);
            for i in lo as usize..hi.min(e.len()) {
                let v = if flip { e[i] ^ 1 } else { nb.get(i - lo as usize).cloned().unwrap_or(0) };
                if v != e[i] { changed = true; }
                e[i] = v;
            }
            if !changed && !c2["nofix"].as_bool().unwrap_or(false) { e[lo as usize] ^= 1; }
            // multi-byte alterations: an xor pattern laid over the encoding from `fault_lo`
            // (several bytes altered at once, e.g. by the same mask) and a swap of two bytes
            let xs = if c2["xor"].is_string() { get_hex(&c2, "xor") } else { Vec::new() };
            for (k, x) in xs.iter().enumerate() {
                if lo as usize + k < e.len() { e[lo as usize + k] ^= x; }
            }
            if let (Some(a), Some(b)) = (c2["swap"][0].as_u64(), c2["swap"][1].as_u64()) {
                if (a as usize) < e.len() && (b as usize) < e.len() {
                    if e[a as usize] == e[b as usize] { return Ok(None); }
                    e.swap(a as usize, b as usize);
                }
            }
            match adss::Share::from_bytes(&e) {
                None => return Ok(None),
                Some(f) => shares[0] = f,
            }
        }
        match adss::recover(&shares) {
            Err(_) => {
                if expect_ok { Ok(Some(format!("recovery of {} honest shares (t={}) failed", n, t))) } else { Ok(None) }
            }
            Ok(c) => {
                if custom { return Ok(Some("shares made under a different transcript were accepted".into())); }
                if t == 0 { return Ok(Some("threshold 0 recovered".into())); }
                if must_reject { return Ok(Some("an altered share field was accepted".into())); }
                if c.get_message() != m { return Ok(Some("recovery returned a different message".into())); }
                Ok(None)
            }
        }
    });
    match res {
        Err(p) => Ok(Some(format!("panicked: {}", p))),
        Ok(r) => r,
    }
}

/// decoder vs the verdict of the reference parser (computed by the checker)
pub fn c08_decode(case: &Value) -> Result<Option<String>, String> {
    let f = case["fn"].as_str().ok_or("fn")?.to_string();
    let b = get_hex(case, "bytes");
    let want_accept = case["expect_accept"].as_bool().ok_or("expect_accept")?;
    let want_canon = case["expect_canon"].as_str().map(|s| s.to_string());
    let r = catch(move || -> Option<Vec<u8>> {
        match f.as_str() {
            "sharks" => star_sharks::Share::try_from(&b[..]).ok().map(|s| Vec::from(&s)),
            "share" => sta_rs::Share::from_bytes(&b).map(|s| s.to_bytes()),
            "message" => sta_rs::Message::from_bytes(&b).map(|s| s.to_bytes()),
            "load_bytes" => adss::load_bytes(&b).map(|c| c.to_vec()),
            _ => None,
        }
    });
    match r {
        Err(p) => Ok(Some(format!("decoder panicked: {}", p))),
        Ok(got) => {
            if got.is_some() != want_accept {
                return Ok(Some(format!("decoder {} the input but the layout reference {} it", if got.is_some() { "accepts" } else { "rejects" }, if want_accept { "accepts" } else { "rejects" })));
            }
            if let (Some(g), Some(w)) = (got, want_canon) {
                let gh: String = g.iter().map(|x| format!("{:02x}", x)).collect();
                if gh != w { return Ok(Some(format!("re-encoding {} differs from the canonical form {}", gh, w))); }
            }
            Ok(None)
        }
    }
}

// ---------------------------------------------------------------------------
// C10 / C11 / C14: puncturable PRF histories on the real GGM / Server
// ---------------------------------------------------------------------------
use ppoprf::PPRF;

/// bits (Lsb0) of the retained prefixes of a server's exported key state, via its serde form
fn retained_prefixes(server: &ppoprf::ppoprf::Server) -> Result<Vec<Vec<bool>>, String> {
    let v = serde_json::to_value(server.get_private_key()).map_err(|e| e.to_string())?;
    let mut out = Vec::new();
    for e in v["ggm_key"]["prefixes"].as_array().ok_or("prefixes")? {
        let bv = &e[0]["bits"];
        let nbits = bv["bits"].as_u64().ok_or("bits")? as usize;
        let head = bv["head"]["index"].as_u64().unwrap_or(0) as usize;
        let data = bv["data"].as_array().ok_or("data")?;
        let mut bits = Vec::new();
        for i in 0..nbits {
            let pos = head + i;
            let w = data[pos / 64].as_u64().unwrap_or(0);
            bits.push((w >> (pos % 64)) & 1 == 1);
        }
        out.push(bits);
    }
    Ok(out)
}

pub fn ggm_history(case: &Value) -> Result<Option<String>, String> {
    let ps: Vec<u8> = case["punctures"].as_array().ok_or("punctures")?.iter().map(|x| x.as_u64().unwrap_or(0) as u8).collect();
    let y = case["probe"].as_u64().unwrap_or(0) as u8;
    let r = catch(move || -> Result<Option<String>, String> {
        let mut g = ppoprf::ggm::GGM::setup();
        let mut before = [0u8; 32];
        if g.eval(&[y], &mut before).is_err() { return Ok(Some("a fresh key does not evaluate the probe".into())); }
        // distinct inputs, distinct values (on a fresh key)
        let mut other = [0u8; 32];
        let y2 = y.wrapping_add(1);
        g.eval(&[y2], &mut other).map_err(|e| e.to_string())?;
        if other == before { return Ok(Some("two distinct inputs have the same value".into())); }
        let mut done: Vec<u8> = Vec::new();
        for &p in &ps {
            let r = g.puncture(&[p]);
            if r.is_ok() == done.contains(&p) {
                return Ok(Some(format!("puncture({}) returned {:?} although the input was {} punctured before", p, r.is_ok(), if done.contains(&p) { "already" } else { "not" })));
            }
            if !done.contains(&p) { done.push(p); }
            // wrong lengths are refused
            if g.eval(&[], &mut other).is_ok() || g.puncture(&[p, p]).is_ok() { return Ok(Some("wrong-length input accepted".into())); }
        }
        let mut after = [0u8; 32];
        let r = g.eval(&[y], &mut after);
        if done.contains(&y) {
            if r.is_ok() { return Ok(Some(format!("punctured input {} still evaluates", y))); }
        } else {
            if r.is_err() { return Ok(Some(format!("unpunctured input {} no longer evaluates after puncturing {:?}", y, done))); }
            if after != before { return Ok(Some(format!("input {} changed its value after puncturing {:?}", y, done))); }
        }
        // forward security, through the server's exported key state
        let tags: Vec<u8> = vec![0, 1, 2, 255];
        let mut s = ppoprf::ppoprf::Server::new(tags.clone()).map_err(|e| e.to_string())?;
        let mut pd: Vec<u8> = Vec::new();
        for &p in &ps { if s.puncture(p).is_ok() && !pd.contains(&p) { pd.push(p); } }
        let pre = retained_prefixes(&s)?;
        for p in &pd {
            for b in &pre {
                if (0..b.len()).all(|i| ((p >> i) & 1 == 1) == b[i]) {
                    return Ok(Some(format!("exported key state retains the node {:?} on the path to punctured tag {}", b, p)));
                }
            }
        }
        for v in 0..=255u8 {
            let cover = pre.iter().filter(|b| (0..b.len()).all(|i| ((v >> i) & 1 == 1) == b[i])).count();
            if pd.contains(&v) && cover != 0 { return Ok(Some(format!("punctured tag {} still covered", v))); }
            if !pd.contains(&v) && cover != 1 { return Ok(Some(format!("unpunctured tag {} covered by {} retained nodes", v, cover))); }
        }
        Ok(None)
    });
    match r {
        Err(p) => Ok(Some(format!("panicked: {}", p))),
        Ok(x) => x,
    }
}

/// chunk helpers: store_bytes writes len(4 LE) | data and load_bytes inverts it; for an
/// arbitrary buffer load_bytes agrees with the little-endian reading of the header
pub fn c08_store(case: &Value) -> Result<Option<String>, String> {
    let data = get_hex(case, "data");
    let buffer = if case["buffer"].is_string() { Some(get_hex(case, "buffer")) } else { None };
    let r = catch(move || -> Option<String> {
        let mut out = Vec::new();
        adss::store_bytes(&data, &mut out);
        if out.len() != 4 + data.len() || out[..4] != (data.len() as u32).to_le_bytes() || out[4..] != data[..] {
            return Some("store_bytes does not write len(4 LE) | data".into());
        }
        if adss::load_bytes(&out) != Some(&data[..]) {
            return Some(format!("load_bytes(store_bytes(x)) != x for a chunk of {} bytes", data.len()));
        }
        if let Some(b) = buffer {
            let want: Option<&[u8]> = if b.len() < 4 { None } else {
                let n = u32::from_le_bytes([b[0], b[1], b[2], b[3]]) as usize;
                if b.len() - 4 < n { None } else { Some(&b[4..4 + n]) }
            };
            if adss::load_bytes(&b) != want {
                return Some(format!("load_bytes disagrees with the little-endian length header on a buffer of {} bytes (header {:?})", b.len(), &b[..4.min(b.len())]));
            }
        }
        None
    });
    match r {
        Err(p) => Ok(Some(format!("panicked: {}", p))),
        Ok(x) => Ok(x),
    }
}

// ---------------------------------------------------------------------------
// C01: end-to-end scenario on the real crates (concrete cross-check)
// ---------------------------------------------------------------------------
/// n clients report measurement m under (epoch, t) with per-client associated data
/// (null = none); every report goes through to_bytes/from_bytes; `selection` lists client
/// indices (repeats allowed) handed to share_recover. Recovery must succeed iff the
/// selection holds >= t distinct clients, and then every selected report must decrypt to
/// exactly (m, aux or absence).
pub fn star_e2e(case: &Value) -> Result<Option<String>, String> {
    let (m, e, t) = (get_hex(case, "m"), get_hex(case, "e"), u32_of(case, "t"));
    let auxs: Vec<Option<Vec<u8>>> = case["aux"].as_array().ok_or("aux")?.iter()
        .map(|a| a.as_str().map(|_| crate::hex(a))).collect();
    let sel: Vec<usize> = case["selection"].as_array().ok_or("selection")?.iter().map(|x| x.as_u64().unwrap_or(0) as usize).collect();
    let r = catch(move || -> Result<Option<String>, String> {
        let mg = sta_rs::MessageGenerator::new(sta_rs::SingleMeasurement::new(&m), t, &e);
        let mut rnd = [0u8; 32];
        mg.sample_local_randomness(&mut rnd);
        let mut reports = Vec::new();
        for a in &auxs {
            let msg = sta_rs::Message::generate(&mg, &rnd, a.as_ref().map(|x| sta_rs::AssociatedData::new(x))).map_err(|e| e.to_string())?;
            let wire = msg.to_bytes();
            let back = match sta_rs::Message::from_bytes(&wire) {
                Some(b) => b,
                None => return Ok(Some(format!("an honest report of {} bytes does not decode", wire.len()))),
            };
            if back != msg { return Ok(Some("decode(encode(report)) != report".into())); }
            reports.push(back);
        }
        let shares: Vec<sta_rs::Share> = sel.iter().map(|&i| reports[i].share.clone()).collect();
        let mut distinct: Vec<usize> = sel.clone();
        distinct.sort();
        distinct.dedup();
        let enough = distinct.len() >= t as usize && t >= 1;
        match sta_rs::share_recover(&shares) {
            Err(_) => {
                if enough { return Ok(Some(format!("recovery failed although the selection {:?} holds {} distinct shares (t = {})", sel, distinct.len(), t))); }
                Ok(None)
            }
            Ok(c) => {
                if !enough { return Ok(Some(format!("recovery succeeded with {} distinct shares under t = {}", distinct.len(), t))); }
                let mut key = vec![0u8; 16];
                sta_rs::derive_ske_key(&c.get_message(), &e, &mut key);
                for &i in &sel {
                    let p = reports[i].ciphertext.decrypt(&key, "star_encrypt");
                    let got_m = match sta_rs::load_bytes(&p) { Some(x) => x.to_vec(), None => return Ok(Some("payload does not parse".into())) };
                    if got_m != m { return Ok(Some(format!("report {} decrypts to another measurement", i))); }
                    let rest = &p[4 + got_m.len()..];
                    let got_a = if rest.is_empty() { None } else { sta_rs::load_bytes(rest).map(|x| x.to_vec()) };
                    if got_a != auxs[i] { return Ok(Some(format!("report {} decrypts to associated data {:?}, the client supplied {:?}", i, got_a, auxs[i]))); }
                }
                Ok(None)
            }
        }
    });
    match r {
        Err(p) => Ok(Some(format!("panicked: {}", p))),
        Ok(x) => x,
    }
}


/// C02 / C16: threshold-2 sharings.  Independent invocations of one sharing lie on one line;
/// the slope (the non-constant coefficient) is non-zero and differs between sharings of
/// different (message, coins).
pub fn adss_coeffs(case: &Value) -> Result<Option<String>, String> {
    let (m, r, m2, r2) = (get_hex(case, "m"), get_hex(case, "r"), get_hex(case, "m2"), get_hex(case, "r2"));
    let res = catch(move || -> Result<Option<String>, String> {
        let mk = |m: &Vec<u8>, r: &Vec<u8>| -> Result<adss::Share, String> {
            adss::Commune::new(2, m.clone(), r.clone(), None).share().map_err(|e| e.to_string())
        };
        let parts = |s: &adss::Share| -> Result<star_sharks::Share, String> {
            // A(4) | len | sharks share | ...
            let b = s.to_bytes();
            let sb = adss::load_bytes(&b[4..]).ok_or("share bytes")?;
            star_sharks::Share::try_from(sb).map_err(|e| e.to_string())
        };
        let slope = |a: &star_sharks::Share, b: &star_sharks::Share| -> Result<Vec<Fp>, String> {
            let dx = b.x - a.x;
            let inv = dx.invert();
            if !bool::from(inv.is_some()) { return Err("equal points".into()); }
            let inv = inv.unwrap();
            Ok(a.y.iter().zip(b.y.iter()).map(|(ya, yb)| (*yb - *ya) * inv).collect())
        };
        let (a1, a2, a3) = (parts(&mk(&m, &r)?)?, parts(&mk(&m, &r)?)?, parts(&mk(&m, &r)?)?);
        let s12 = slope(&a1, &a2)?;
        let s13 = slope(&a1, &a3)?;
        if s12 != s13 { return Ok(Some("three independent invocations of one sharing are not on one polynomial".into())); }
        if s12.iter().any(|c| bool::from(c.is_zero())) { return Ok(Some("a non-constant coefficient is zero".into())); }
        if m != m2 || r != r2 {
            let (b1, b2) = (parts(&mk(&m2, &r2)?)?, parts(&mk(&m2, &r2)?)?);
            let t12 = slope(&b1, &b2)?;
            if t12.iter().zip(s12.iter()).any(|(a, b)| a == b) {
                return Ok(Some("two sharings of different (message, coins) use the same polynomial coefficient".into()));
            }
        }
        Ok(None)
    });
    match res {
        Err(p) => Ok(Some(format!("panicked: {}", p))),
        Ok(r) => r,
    }
}


/// random source that replays a script of u64 words (then counts up), counting draws
pub struct ScriptRng { pub words: Vec<u64>, pub pos: usize, pub draws: u64, pub limit: u64 }
impl rand_core::RngCore for ScriptRng {
    fn next_u32(&mut self) -> u32 { self.next_u64() as u32 }
    fn next_u64(&mut self) -> u64 {
        let v = if self.pos < self.words.len() { self.words[self.pos] } else { 1 + self.pos as u64 };
        self.pos += 1;
        self.draws += 1;
        if self.limit != 0 && self.draws > self.limit { panic!("draw budget reached"); }
        v
    }
    fn fill_bytes(&mut self, dest: &mut [u8]) { rand_core::impls::fill_bytes_via_next(self, dest) }
    fn try_fill_bytes(&mut self, dest: &mut [u8]) -> Result<(), rand_core::Error> { self.fill_bytes(dest); Ok(()) }
}

/// C06: `Evaluator::gen` under a scripted random source (e.g. several zero candidates in a
/// row): the share point is never zero and is the first non-zero accepted candidate
pub fn gen_script(case: &Value) -> Result<Option<String>, String> {
    let words: Vec<u64> = case["words"].as_array().ok_or("words")?.iter().map(|w| w.as_str().and_then(|s| s.parse::<u64>().ok()).or(w.as_u64()).unwrap_or(0)).collect();
    let t = u32_of(case, "t").max(1);
    let r = catch(move || -> Result<Option<String>, String> {
        let mut secret = vec![0u8; 24];
        secret[0] = 7;
        let mut coin = ScriptRng { words: vec![], pos: 100, draws: 0, limit: 0 };
        let ev = star_sharks::Sharks(t).dealer_rng(&secret, &mut coin).map_err(|e| e.to_string())?;
        let mut rng = ScriptRng { words, pos: 0, draws: 0, limit: 0 };
        let sh = ev.gen(&mut rng);
        if bool::from(sh.x.is_zero()) {
            return Ok(Some(format!("Evaluator::gen handed out the point 0 (the value is the secret itself) after {} source words", rng.draws)));
        }
        Ok(None)
    });
    match r { Err(p) => Ok(Some(format!("panicked: {}", p))), Ok(x) => x }
}

/// C02 / C06: dealing with threshold t draws t-1 coefficients (3 source words each, more on
/// rejection) per secret element — the threshold is used at its full 32-bit width
pub fn dealer_draws(case: &Value) -> Result<Option<String>, String> {
    let t = case["t"].as_u64().ok_or("t")? as u32;
    let nel = case["elements"].as_u64().unwrap_or(1) as usize;
    let r = catch(move || -> Result<Option<String>, String> {
        let mut secret = vec![0u8; 24 * nel];
        secret[0] = 7;
        let want = 3u64 * (t.max(1) as u64 - 1) * nel as u64;
        // huge thresholds: stop once 3 million words were drawn (the code is drawing as it
        // should; running on would only take minutes and gigabytes)
        if t > 50_000_000 {
            // Vec::with_capacity(t) alone is > 1 GB here; not replayed natively
            return Ok(None);
        }
        if want > 3_000_000 {
            let r = catch(move || {
                let mut secret = vec![0u8; 24 * nel];
                secret[0] = 7;
                let mut coin = ScriptRng { words: vec![], pos: 100, draws: 0, limit: 3_000_000 };
                let _ = star_sharks::Sharks(t).dealer_rng(&secret, &mut coin);
                coin.draws
            });
            return match r {
                Err(m) if m.contains("draw budget") => Ok(None),
                Err(m) => Ok(Some(format!("dealing with threshold {} panicked: {}", t, m))),
                Ok(d) => Ok(Some(format!("dealing with threshold {} drew {} source words, a polynomial of degree t-1 per element needs at least {}", t, d, want))),
            };
        }
        let mut coin = ScriptRng { words: vec![], pos: 100, draws: 0, limit: 0 };
        let ev = star_sharks::Sharks(t).dealer_rng(&secret, &mut coin).map_err(|e| e.to_string())?;
        if coin.draws < want {
            return Ok(Some(format!("dealing with threshold {} drew {} source words, a polynomial of degree t-1 per element needs at least {}", t, coin.draws, want)));
        }
        // two shares of a threshold >= 2 sharing must not both carry the secret itself
        if t >= 2 {
            let mut g = ScriptRng { words: vec![], pos: 1000, draws: 0, limit: 0 };
            let a = ev.gen(&mut g);
            let b = ev.gen(&mut g);
            if a.y == b.y { return Ok(Some(format!("threshold {}: two shares at different points carry the same value (constant polynomial)", t))); }
        }
        Ok(None)
    });
    match r { Err(p) => Ok(Some(format!("panicked: {}", p))), Ok(x) => x }
}


// ---------------------------------------------------------------------------
// C09 concrete cross-check: consumers of foreign data on structured malformed input
// ---------------------------------------------------------------------------
fn lcg(s: &mut u64) -> u64 {
    *s = s.wrapping_mul(6364136223846793005).wrapping_add(1442695040888963407);
    *s >> 33
}
fn rnd_bytes(s: &mut u64, n: usize) -> Vec<u8> {
    (0..n).map(|_| lcg(s) as u8).collect()
}
/// mutations of a valid encoding: every truncation, one flipped byte at each of the first
/// `span` positions, 0x00 / 0xff / +1 / -1 on every byte of the first `span`, appended junk
fn mutations(valid: &[u8], span: usize) -> Vec<Vec<u8>> {
    let mut out = Vec::new();
    for n in 0..=valid.len() {
        out.push(valid[..n].to_vec());
    }
    for i in 0..span.min(valid.len()) {
        for v in [0u8, 0xff, valid[i].wrapping_add(1), valid[i].wrapping_sub(1), valid[i] ^ 0x80] {
            let mut m = valid.to_vec();
            m[i] = v;
            out.push(m);
        }
    }
    let mut m = valid.to_vec();
    m.extend_from_slice(&[0xaa; 9]);
    out.push(m);
    out
}

/// one named consumer on one input; returns Some(panic message)
fn foreign_one(f: &str, b: &[u8]) -> Option<String> {
    use base64::Engine;
    let b = b.to_vec();
    let f2 = f.to_string();
    let r = catch(move || {
        match f2.as_str() {
            "ppoprf::ServerPublicKey::load_from_bincode" => { let _ = ppoprf::ppoprf::ServerPublicKey::load_from_bincode(&b); }
            "ppoprf::ProofDLEQ::load_from_bincode" => { let _ = ppoprf::ppoprf::ProofDLEQ::load_from_bincode(&b); }
            "ppoprf::Point::json" => { let _ = serde_json::from_slice::<ppoprf::ppoprf::Point>(&b); }
            "ppoprf::Evaluation::json" => { let _ = serde_json::from_slice::<ppoprf::ppoprf::Evaluation>(&b); }
            "ppoprf::ServerKeyState::json" => { let _ = serde_json::from_slice::<ppoprf::ppoprf::ServerKeyState>(&b); }
            "ppoprf::Point::bincode" => { let _ = bincode::deserialize::<ppoprf::ppoprf::Point>(&b); }
            "star_wasm::group_shares" => { let _ = star_wasm::group_shares(&String::from_utf8_lossy(&b), "epoch"); }
            "star_wasm::group_shares(b64)" => { let _ = star_wasm::group_shares(&base64::prelude::BASE64_STANDARD.encode(&b), "epoch"); }
            "sta_rs::Message::from_bytes" => { let _ = sta_rs::Message::from_bytes(&b); }
            "sta_rs::Share::from_bytes" => { let _ = sta_rs::Share::from_bytes(&b); let _ = adss::Share::from_bytes(&b); }
            "sta_rs::share_recover" => {
                if let Some(s) = sta_rs::Share::from_bytes(&b) { let _ = sta_rs::share_recover(&[s]); }
            }
            "sta_rs::share_recover(pair)" => {
                // u32 length | share a | share b
                if let Some(a) = adss::load_bytes(&b) {
                    let rest = &b[4 + a.len()..];
                    if let (Some(x), Some(y)) = (sta_rs::Share::from_bytes(a), sta_rs::Share::from_bytes(rest)) {
                        let _ = sta_rs::share_recover(&[x.clone(), y.clone()]);
                        let _ = sta_rs::share_recover(&[y, x.clone(), x]);
                    }
                }
            }
            "ppoprf::Client::verify(received pk)" => {
                // b: a bincode public key as received from a server (possibly with undecodable points)
                if let Ok(pk) = ppoprf::ppoprf::ServerPublicKey::load_from_bincode(&b) {
                    let srv = ppoprf::ppoprf::Server::new(vec![0u8, 1, 200]).unwrap();
                    let (p, _r) = ppoprf::ppoprf::Client::blind(b"x");
                    for md in [0u8, 1, 200, 7] {
                        if let Ok(ev) = srv.eval(&p, md, true) {
                            let _ = ppoprf::ppoprf::Client::verify(&pk, &p, &ev, md);
                        }
                    }
                }
            }
            "ppoprf::Server::eval+verify" => {
                // b: 32 bytes blinded point | 32 bytes claimed output
                if b.len() >= 64 {
                    let srv = ppoprf::ppoprf::Server::new(vec![0u8, 1]).unwrap();
                    let p: ppoprf::ppoprf::Point = serde_json::from_value(serde_json::json!(b[..32].to_vec())).unwrap_or_else(|_| ppoprf::ppoprf::Client::blind(b"x").0);
                    let ev = srv.eval(&p, 0, true);
                    let _ = srv.eval(&p, 7, false);
                    let q: ppoprf::ppoprf::Point = serde_json::from_value(serde_json::json!(b[32..64].to_vec())).unwrap_or_else(|_| ppoprf::ppoprf::Client::blind(b"y").0);
                    if let Ok(mut ev) = ev {
                        let _ = ppoprf::ppoprf::Client::verify(&srv.get_public_key(), &q, &ev, 0);
                        ev.output = q.clone();
                        let _ = ppoprf::ppoprf::Client::verify(&srv.get_public_key(), &p, &ev, 0);
                        ev.proof = None;
                        let _ = ppoprf::ppoprf::Client::verify(&srv.get_public_key(), &p, &ev, 1);
                    }
                }
            }
            _ => panic!("unknown consumer {}", f2),
        }
    });
    r.err()
}

pub fn c09_foreign(case: &Value) -> Result<Option<String>, String> {
    use base64::Engine;
    // single input replay
    if let Some(f) = case["fn"].as_str() {
        let b = get_hex(case, "bytes");
        return Ok(foreign_one(f, &b).map(|m| format!("{} panicked on {} bytes ({}): {}", f, b.len(), crate::to_hex(&b[..b.len().min(48)]), m)));
    }
    let mut seed = case["seed"].as_u64().unwrap_or(1);
    let mut inputs: Vec<(&str, Vec<u8>)> = Vec::new();
    // valid encodings to mutate
    let srv = ppoprf::ppoprf::Server::new(vec![0u8, 1, 200]).map_err(|e| format!("{:?}", e))?;
    let pk = srv.get_public_key().serialize_to_bincode().map_err(|e| format!("{:?}", e))?;
    let (bp, _r) = ppoprf::ppoprf::Client::blind(b"input");
    let ev = srv.eval(&bp, 1, true).map_err(|e| format!("{:?}", e))?;
    let proof = ev.proof.as_ref().ok_or("proof")?.serialize_to_bincode().map_err(|e| format!("{:?}", e))?;
    let ev_json = serde_json::to_vec(&ev).map_err(|e| e.to_string())?;
    let pt_json = serde_json::to_vec(&bp).map_err(|e| e.to_string())?;
    let pt_bin = bincode::serialize(&bp).map_err(|e| e.to_string())?;
    let ks_json = serde_json::to_vec(&srv.get_private_key()).map_err(|e| e.to_string())?;
    for m in mutations(&pk, 60) { inputs.push(("ppoprf::ServerPublicKey::load_from_bincode", m)); }
    for m in mutations(&proof, 64) { inputs.push(("ppoprf::ProofDLEQ::load_from_bincode", m)); }
    for m in mutations(&pt_bin, 40) { inputs.push(("ppoprf::Point::bincode", m)); }
    for m in mutations(&pt_json, 8) { inputs.push(("ppoprf::Point::json", m)); }
    for m in mutations(&ev_json, 8) { inputs.push(("ppoprf::Evaluation::json", m)); }
    for m in mutations(&ks_json[..ks_json.len().min(400)], 4) { inputs.push(("ppoprf::ServerKeyState::json", m)); }
    // JSON values with byte arrays / base64 strings of every length 0..40 and 64
    for n in (0..=40).chain([63usize, 64, 65]) {
        let arr = serde_json::to_vec(&rnd_bytes(&mut seed, n)).unwrap();
        inputs.push(("ppoprf::Point::json", arr.clone()));
        let b64 = base64::prelude::BASE64_STANDARD.encode(rnd_bytes(&mut seed, n));
        inputs.push(("ppoprf::Evaluation::json", format!("{{\"output\":\"{}\",\"proof\":null}}", b64).into_bytes()));
        inputs.push(("ppoprf::Evaluation::json", format!("{{\"output\":\"{}\",\"proof\":{{\"c\":{},\"s\":{}}}}}", b64, String::from_utf8_lossy(&arr), String::from_utf8_lossy(&arr)).into_bytes()));
        let mut bin = (n as u64).to_le_bytes().to_vec();
        bin.extend(rnd_bytes(&mut seed, n));
        inputs.push(("ppoprf::Point::bincode", bin.clone()));
        inputs.push(("ppoprf::ProofDLEQ::load_from_bincode", bin.clone()));
        inputs.push(("ppoprf::ServerPublicKey::load_from_bincode", bin));
    }
    for _ in 0..40 {
        inputs.push(("ppoprf::Server::eval+verify", rnd_bytes(&mut seed, 64)));
    }
    // sta_rs encodings
    let mg = sta_rs::MessageGenerator::new(sta_rs::SingleMeasurement::new(b"measurement"), 2, b"epoch");
    let mut rnd = [0u8; 32];
    mg.sample_local_randomness(&mut rnd);
    let msg = sta_rs::Message::generate(&mg, &rnd, Some(sta_rs::AssociatedData::new(b"aux"))).map_err(|e| e.to_string())?;
    let mb = msg.to_bytes();
    let sb = msg.share.to_bytes();
    for m in mutations(&mb, 48) { inputs.push(("sta_rs::Message::from_bytes", m)); }
    for m in mutations(&sb, sb.len()) { inputs.push(("sta_rs::Share::from_bytes", m.clone())); inputs.push(("sta_rs::share_recover", m.clone())); inputs.push(("star_wasm::group_shares(b64)", m)); }
    // pairs: an honest share next to one whose point / value field is 0, p-1, equal to the other's
    let msg2 = sta_rs::Message::generate(&mg, &rnd, None).map_err(|e| e.to_string())?;
    let sb2 = msg2.share.to_bytes();
    if sb.len() >= 56 && sb2.len() == sb.len() {
        let pm1: [u8; 24] = [0xa2, 0x30, 0, 0, 0, 0, 0, 0, 0, 0, 0, 0, 0, 0, 0, 0, 1, 0, 0, 0, 0, 0, 0, 0];
        let mut variants: Vec<Vec<u8>> = Vec::new();
        for (off, val) in [(8usize, [0u8; 24]), (8, pm1), (32, [0u8; 24]), (32, pm1)] {
            let mut m = sb.clone();
            m[off..off + 24].copy_from_slice(&val);
            variants.push(m);
        }
        let mut m = sb.clone();
        m[8..32].copy_from_slice(&sb2[8..32]);
        variants.push(m);
        for v in variants {
            let mut pair = Vec::new();
            sta_rs::store_bytes(&v, &mut pair);
            pair.extend_from_slice(&sb2);
            inputs.push(("sta_rs::share_recover(pair)", pair));
            inputs.push(("sta_rs::share_recover", v));
        }
    }
    // received public keys whose base point / per-tag points are not valid Ristretto encodings
    for off in [0usize, 41, 41 + 33, 41 + 66] {
        if off + 32 <= pk.len() {
            for fill in [0xffu8, 0x01, 0x80] {
                let mut m = pk.clone();
                for i in 0..32 { m[off + i] = fill; }
                inputs.push(("ppoprf::Client::verify(received pk)", m));
            }
        }
    }
    inputs.push(("ppoprf::Client::verify(received pk)", pk.clone()));
    // shares without values (24-byte point only), thresholds 0, 1, 2, 2^32-1: recovery of 1..3 of them
    for t in [0u32, 1, 2, u32::MAX] {
        let mut one = Vec::new();
        one.extend_from_slice(&t.to_le_bytes());
        let mut x = [0u8; 24];
        x[0] = 3;
        sta_rs::store_bytes(&x, &mut one);
        sta_rs::store_bytes(&[1u8, 2], &mut one);
        sta_rs::store_bytes(&[3u8], &mut one);
        one.extend_from_slice(&[0x5au8; 64]);
        inputs.push(("sta_rs::share_recover", one.clone()));
        let mut two = one.clone();
        two[8] = 4;
        let mut pair = Vec::new();
        sta_rs::store_bytes(&one, &mut pair);
        pair.extend_from_slice(&two);
        inputs.push(("sta_rs::share_recover(pair)", pair));
        inputs.push(("star_wasm::group_shares(b64)", one));
    }
    // every length prefix of the share set to extreme values
    for off in [4usize, 60, 60 + 4 + 32] {
        for v in [[0u8, 0, 0, 0], [0xff, 0xff, 0xff, 0xff], [0xfc, 0xff, 0xff, 0xff], [0xff, 0xff, 0xff, 0x7f], [1, 0, 0, 0]] {
            if off + 4 <= sb.len() {
                let mut m = sb.clone();
                m[off..off + 4].copy_from_slice(&v);
                inputs.push(("sta_rs::Share::from_bytes", m.clone()));
                inputs.push(("sta_rs::share_recover", m.clone()));
                inputs.push(("star_wasm::group_shares(b64)", m));
            }
        }
    }
    // group_shares: raw text (junk, empty lines, several lines), base64 of random buffers of many sizes
    for t in ["", "\n", "!!", "=", "====", "AAAA", "AAAA\nAAAA", "AA==\n\n", "\u{0}", "é", "AAA"] {
        inputs.push(("star_wasm::group_shares", t.as_bytes().to_vec()));
    }
    for n in (0..=320).step_by(1) {
        inputs.push(("star_wasm::group_shares(b64)", rnd_bytes(&mut seed, n)));
    }
    let two = format!("{}\n{}", base64::prelude::BASE64_STANDARD.encode(&sb), base64::prelude::BASE64_STANDARD.encode(&sb[..sb.len() - 1]));
    inputs.push(("star_wasm::group_shares", two.into_bytes()));
    let n = inputs.len();
    for (f, b) in inputs {
        if let Some(m) = foreign_one(f, &b) {
            return Ok(Some(format!("{} panicked on a {}-byte input (1 of {} tried) hex={} : {}", f, b.len(), n, crate::to_hex(&b[..b.len().min(400)]), m)));
        }
    }
    Ok(None)
}


/// C06: native realisation of the dealing harnesses: deal a secret of `elements` field elements
/// under threshold t with a scripted source, hand out t+2 shares, and check that every window
/// of t consecutive shares recovers exactly the secret, t-1 shares are refused, no share point
/// is 0, and (t >= 2) the first share does not carry the secret itself.
pub fn dealer_model(case: &Value) -> Result<Option<String>, String> {
    let t = u32_of(case, "t").max(1);
    let nel = case["elements"].as_u64().unwrap_or(1) as usize;
    let tail = case["tail"].as_u64().unwrap_or(0) as usize;
    let r = catch(move || -> Result<Option<String>, String> {
        let mut secret = vec![0u8; 24 * nel + tail];
        for e in 0..nel { secret[24 * e] = 7 + e as u8; secret[24 * e + 9] = 0x5a; }
        for i in 0..tail { secret[24 * nel + i] = 0xee; }
        let mut coin = ScriptRng { words: vec![], pos: 100, draws: 0, limit: 0 };
        let ev = star_sharks::Sharks(t).dealer_rng(&secret, &mut coin).map_err(|e| e.to_string())?;
        let mut g = ScriptRng { words: vec![], pos: 5000, draws: 0, limit: 0 };
        let shares: Vec<star_sharks::Share> = (0..t as usize + 2).map(|_| ev.gen(&mut g)).collect();
        for s in &shares {
            if bool::from(s.x.is_zero()) { return Ok(Some("a share point is 0".into())); }
            if s.y.len() != nel { return Ok(Some(format!("a share carries {} values for a secret of {} elements", s.y.len(), nel))); }
        }
        let want = &secret[..24 * nel];
        for w in 0..3usize {
            let sel: Vec<star_sharks::Share> = shares[w..w + t as usize].to_vec();
            match star_sharks::Sharks(t).recover(&sel) {
                Ok(got) => if got != want { return Ok(Some(format!("shares {}..{} of a threshold-{} sharing recover {:02x?}, dealt {:02x?}", w, w + t as usize, t, &got[..got.len().min(8)], &want[..8.min(want.len())]))); },
                Err(e) => if nel > 0 { return Ok(Some(format!("{} shares of a threshold-{} sharing are refused: {}", t, t, e))); },
            }
        }
        if t >= 2 {
            let few: Vec<star_sharks::Share> = shares[..t as usize - 1].to_vec();
            if star_sharks::Sharks(t).recover(&few).is_ok() { return Ok(Some("t-1 shares recover".into())); }
            let first: Vec<u8> = shares[0].y.iter().flat_map(|f| { use ff::PrimeField; f.to_repr().as_ref().to_vec() }).collect();
            if nel > 0 && first == want { return Ok(Some("a single share of a threshold >= 2 sharing carries the secret itself".into())); }
        }
        Ok(None)
    });
    match r { Err(p) => Ok(Some(format!("panicked: {}", p))), Ok(x) => x }
}


// ---------------------------------------------------------------------------
// C14: the randomness server under a history of punctures, natively
// ---------------------------------------------------------------------------
fn pk_tags(pk: &ppoprf::ppoprf::ServerPublicKey) -> Result<Vec<u8>, String> {
    // bincode: base point (32) | u64 map length | (u8 tag | 32-byte point)*
    let b = pk.serialize_to_bincode().map_err(|e| format!("{:?}", e))?;
    if b.len() < 40 { return Err("public key encoding too short".into()); }
    let n = u64::from_le_bytes([b[32], b[33], b[34], b[35], b[36], b[37], b[38], b[39]]) as usize;
    if b.len() != 40 + 33 * n { return Err(format!("public key encoding has {} bytes for {} tags", b.len(), n)); }
    Ok((0..n).map(|i| b[40 + 33 * i]).collect())
}
fn undecodable_point() -> ppoprf::ppoprf::Point {
    // 32 bytes 0xff is not a canonical Ristretto encoding
    serde_json::from_value(serde_json::json!(vec![0xffu8; 32])).expect("point from bytes")
}
fn same_answers(a: &ppoprf::ppoprf::Server, b: &ppoprf::ppoprf::Server, p: &ppoprf::ppoprf::Point, what: &str) -> Option<String> {
    let (ka, kb) = (a.get_public_key().serialize_to_bincode().ok(), b.get_public_key().serialize_to_bincode().ok());
    if ka != kb { return Some(format!("{}: public keys differ", what)); }
    for md in 0..=255u8 {
        let (ra, rb) = (a.eval(p, md, false), b.eval(p, md, false));
        match (ra, rb) {
            (Ok(x), Ok(y)) => if x.output != y.output { return Some(format!("{}: answers for tag {} differ", what, md)); },
            (Err(x), Err(y)) => if format!("{:?}", x) != format!("{:?}", y) { return Some(format!("{}: tag {} fails with {:?} vs {:?}", what, md, x, y)); },
            (x, y) => return Some(format!("{}: tag {} answered by one server only ({} vs {})", what, md, x.is_ok(), y.is_ok())),
        }
    }
    None
}

pub fn server_history(case: &Value) -> Result<Option<String>, String> {
    let list = |k: &str| -> Vec<u8> { case[k].as_array().map(|a| a.iter().map(|x| x.as_u64().unwrap_or(0) as u8).collect()).unwrap_or_default() };
    let (reg, ps) = (list("registered"), list("punctures"));
    let md = case["md"].as_u64().unwrap_or(0) as u8;
    let decodable = case["decodable"].as_bool().unwrap_or(true);
    let r = catch(move || -> Result<Option<String>, String> {
        let mut srv = ppoprf::ppoprf::Server::new(reg.clone()).map_err(|e| format!("Server::new: {:?}", e))?;
        let fresh = srv.clone();
        let pk0 = srv.get_public_key().serialize_to_bincode().map_err(|e| format!("{:?}", e))?;
        let mut tags = pk_tags(&srv.get_public_key())?;
        tags.sort();
        let mut want = reg.clone();
        want.sort();
        want.dedup();
        if tags != want { return Ok(Some(format!("the public key registers {:?}, created with {:?}", tags, want))); }
        let good = ppoprf::ppoprf::Client::blind(b"input").0;
        let p = if decodable { good.clone() } else { undecodable_point() };
        let kind = |e: &ppoprf::PPRFError| format!("{:?}", e).split(|c: char| !c.is_alphanumeric()).next().unwrap_or("").to_string();
        // untouched server
        let r0 = srv.eval(&p, md, false);
        if r0.is_ok() != (decodable && want.contains(&md)) {
            return Ok(Some(format!("an untouched server created with {:?} {} for tag {} (point decodable: {})", want, if r0.is_ok() { "answers" } else { "refuses" }, md, decodable)));
        }
        // the history
        let mut done: Vec<u8> = Vec::new();
        for &t in &ps {
            let r = srv.puncture(t);
            if r.is_ok() == done.contains(&t) {
                return Ok(Some(format!("puncture({}) returned ok={} although the tag was {} punctured before", t, r.is_ok(), if done.contains(&t) { "already" } else { "not" })));
            }
            if !done.contains(&t) { done.push(t); }
            if srv.get_public_key().serialize_to_bincode().map_err(|e| format!("{:?}", e))? != pk0 { return Ok(Some(format!("the public key changed when tag {} was punctured", t))); }
        }
        // every tag: answers iff decodable, registered, unpunctured; same answer as the untouched server
        for t in 0..=255u8 {
            let r = srv.eval(&p, t, false);
            let should = decodable && want.contains(&t) && !done.contains(&t);
            if r.is_ok() != should {
                return Ok(Some(format!("after puncturing {:?} the server (registered {:?}) {} for tag {} (point decodable: {})", done, want, if r.is_ok() { "answers" } else { "refuses" }, t, decodable)));
            }
            match (&r, fresh.eval(&p, t, false)) {
                (Ok(a), Ok(b)) => if a.output != b.output { return Ok(Some(format!("the answer for tag {} changed after puncturing {:?}", t, done))); },
                (Err(e), _) => {
                    let k = kind(e);
                    let wantk = if !decodable { "BadPointEncoding" } else if !want.contains(&t) { "BadTag" } else { "NoPrefixFound" };
                    if k != wantk { return Ok(Some(format!("tag {} fails with {} instead of {}", t, k, wantk))); }
                }
                _ => {}
            }
        }
        if !decodable { return Ok(None); }
        // clones evolve independently
        let mut c = srv.clone();
        let extra = (0..=255u8).find(|t| !done.contains(t)).unwrap_or(0);
        let _ = c.puncture(extra);
        if srv.eval(&good, extra, false).is_ok() != want.contains(&extra) { return Ok(Some("puncturing a clone changed the original".into())); }
        // export -> import into another server / into a stale replica
        let state = serde_json::to_string(&srv.get_private_key()).map_err(|e| e.to_string())?;
        let mut other = ppoprf::ppoprf::Server::new(vec![7u8]).map_err(|e| format!("{:?}", e))?;
        other.set_private_key(serde_json::from_str(&state).map_err(|e| e.to_string())?);
        if let Some(m) = same_answers(&srv, &other, &good, "a server restored from the exported state vs the exporter") { return Ok(Some(m)); }
        let mut stale = fresh.clone();
        stale.set_private_key(serde_json::from_str(&state).map_err(|e| e.to_string())?);
        if let Some(m) = same_answers(&srv, &stale, &good, "a previously synchronised replica after importing the newer state vs the exporter") { return Ok(Some(m)); }
        // the restored server keeps working: puncture one more live tag on both
        if let Some(t) = want.iter().find(|t| !done.contains(t)) {
            let (a, b) = (srv.puncture(*t), other.puncture(*t));
            if a.is_ok() != b.is_ok() { return Ok(Some(format!("puncture({}) after import: exporter ok={}, restored ok={}", t, a.is_ok(), b.is_ok()))); }
            if let Some(m) = same_answers(&srv, &other, &good, "exporter vs restored server after one more puncture on both") { return Ok(Some(m)); }
        }
        Ok(None)
    });
    match r { Err(p) => Ok(Some(format!("panicked: {}", p))), Ok(x) => x }
}

/// C10 / C11 concrete sweep: every (puncture, probe) pair of the 8-bit domain, then seeded
/// histories of 2..6 punctures (sibling-first, ascending, repeated) with 16 probes each
pub fn ggm_sweep(case: &Value) -> Result<Option<String>, String> {
    let mut seed = case["seed"].as_u64().unwrap_or(1);
    let r = catch(move || -> Result<Option<String>, String> {
        let g0 = ppoprf::ggm::GGM::setup();
        let mut base = vec![[0u8; 32]; 256];
        for y in 0..256usize {
            g0.eval(&[y as u8], &mut base[y]).map_err(|e| format!("fresh eval {}: {}", y, e))?;
        }
        for a in 0..256usize { for b in 0..a { if base[a] == base[b] { return Ok(Some(format!("inputs {} and {} have the same value", a, b))); } } }
        let check = |g: &ppoprf::ggm::GGM, done: &Vec<u8>, ys: &[u8]| -> Option<String> {
            let mut out = [0u8; 32];
            for &y in ys {
                let r = g.eval(&[y], &mut out);
                if done.contains(&y) { if r.is_ok() { return Some(format!("punctured input {} still evaluates after {:?}", y, done)); } }
                else if r.is_err() { return Some(format!("unpunctured input {} no longer evaluates after {:?}", y, done)); }
                else if out != base[y as usize] { return Some(format!("input {} changed its value after {:?}", y, done)); }
            }
            None
        };
        let all: Vec<u8> = (0..=255u8).collect();
        // wrong lengths are refused by both calls and leave the key as it was
        {
            let mut g = g0.clone();
            let mut out = [0u8; 32];
            for bad in [&[][..], &[1u8, 2][..], &[0u8, 0, 0][..]] {
                if g.eval(bad, &mut out).is_ok() { return Ok(Some(format!("evaluation accepts a {}-byte input", bad.len()))); }
                if g.puncture(bad).is_ok() { return Ok(Some(format!("puncturing accepts a {}-byte input", bad.len()))); }
            }
            if let Some(m) = check(&g, &vec![], &all) { return Ok(Some(format!("after refused wrong-length calls: {}", m))); }
            g.puncture(&[9]).map_err(|e| e.to_string())?;
            for bad in [&[][..], &[9u8, 9][..]] {
                if g.eval(bad, &mut out).is_ok() || g.puncture(bad).is_ok() { return Ok(Some(format!("a {}-byte input is accepted after a puncture", bad.len()))); }
            }
            if let Some(m) = check(&g, &vec![9], &all) { return Ok(Some(format!("after refused wrong-length calls: {}", m))); }
        }
        for p in 0..=255u8 {
            let mut g = g0.clone();
            if g.puncture(&[p]).is_err() { return Ok(Some(format!("puncture({}) on a fresh key fails", p))); }
            if g.puncture(&[p]).is_ok() { return Ok(Some(format!("puncture({}) succeeds twice", p))); }
            if let Some(m) = check(&g, &vec![p], &all) { return Ok(Some(m)); }
        }
        for _ in 0..400 {
            let n = 2 + (lcg(&mut seed) % 5) as usize;
            let first = lcg(&mut seed) as u8;
            let mut hist: Vec<u8> = vec![first];
            for i in 1..n {
                let prev = hist[i - 1];
                hist.push(match lcg(&mut seed) % 4 { 0 => prev ^ 0x80, 1 => prev ^ 1, 2 => prev.wrapping_add(1), _ => lcg(&mut seed) as u8 });
            }
            let mut g = g0.clone();
            let mut done: Vec<u8> = Vec::new();
            for &p in &hist {
                let r = g.puncture(&[p]);
                if r.is_ok() == done.contains(&p) { return Ok(Some(format!("history {:?}: puncture({}) ok={} ", hist, p, r.is_ok()))); }
                if !done.contains(&p) { done.push(p); }
            }
            let mut ys: Vec<u8> = hist.clone();
            for &p in &hist { ys.push(p ^ 0x80); ys.push(p ^ 1); }
            for _ in 0..8 { ys.push(lcg(&mut seed) as u8); }
            if let Some(m) = check(&g, &done, &ys) { return Ok(Some(format!("history {:?}: {}", hist, m))); }
        }
        Ok(None)
    });
    match r { Err(p) => Ok(Some(format!("panicked: {}", p))), Ok(x) => x }
}


/// C05 / C02: collections mixing shares of two different sharings (same threshold): whatever
/// the order, the outcome is an error or exactly the message of the sharing the *first* share
/// belongs to; and it is an error whenever no sharing reaches the threshold.
pub fn adss_mixed(case: &Value) -> Result<Option<String>, String> {
    let (ma, ra, mb, rb) = (get_hex(case, "ma"), get_hex(case, "ra"), get_hex(case, "mb"), get_hex(case, "rb"));
    let t = u32_of(case, "t").max(1);
    let rounds = case["rounds"].as_u64().unwrap_or(6) as usize;
    let r = catch(move || -> Result<Option<String>, String> {
        for _ in 0..rounds {
            // fresh points every round (the OS draws them): all relative orders of points occur
            let mk = |m: &Vec<u8>, r: &Vec<u8>| adss::Commune::new(t, m.clone(), r.clone(), None).share().map_err(|e| e.to_string());
            let a: Vec<adss::Share> = (0..t as usize + 1).map(|_| mk(&ma, &ra)).collect::<Result<_, _>>()?;
            let b: Vec<adss::Share> = (0..t as usize + 1).map(|_| mk(&mb, &rb)).collect::<Result<_, _>>()?;
            // (who is first, how many of A, how many of B)
            for first_is_b in [true, false] {
                for na in 0..=t as usize + 1 {
                    for nb in 0..=t as usize + 1 {
                        let (fst, oth, nf, no, mf) = if first_is_b { (&b, &a, nb, na, &mb) } else { (&a, &b, na, nb, &ma) };
                        if nf == 0 { continue; }
                        let mut v: Vec<adss::Share> = vec![fst[0].clone()];
                        v.extend(oth[..no].iter().cloned());
                        v.extend(fst[1..nf].iter().cloned());
                        match adss::recover(&v) {
                            Err(_) => {
                                // the first share's sharing is complete and its shares come first among the distinct ones?
                                // (only the all-own-shares case must succeed)
                                if no == 0 && nf >= t as usize { return Ok(Some(format!("{} honest shares of one threshold-{} sharing are refused", nf, t))); }
                            }
                            Ok(c) => {
                                if &c.get_message() != mf && ma != mb {
                                    return Ok(Some(format!("a collection whose first share belongs to sharing {} ({} own, {} foreign shares) recovers the other sharing's message", if first_is_b { "B" } else { "A" }, nf, no)));
                                }
                                if nf < t as usize && ma != mb {
                                    return Ok(Some(format!("recovery succeeds although the first share's sharing has only {} of {} shares present", nf, t)));
                                }
                            }
                        }
                    }
                }
            }
        }
        Ok(None)
    });
    match r { Err(p) => Ok(Some(format!("panicked: {}", p))), Ok(x) => x }
}
