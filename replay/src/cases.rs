//! Replay cases, one function per counterexample family.
//! Each returns Ok(None) = property holds here, Ok(Some(msg)) = violation reproduced.
use crate::{catch, get_hex};
use serde_json::Value;
use std::convert::TryFrom;

pub fn dispatch(kind: &str, case: &Value) -> Result<Option<String>, String> {
    match kind {
        "panic_decode" => panic_decode(case),
        "fp_op" => fp_op(case),
        "fp_eval" => fp_eval(case),
        "fp_const" => fp_const(case),
        "recover_eval" => recover_eval(case),
        "recover_case" => recover_case(case),
        "c04_triples" => c04_triples(case),
        "c04_ske" => c04_ske(case),
        "c04_digest" => c04_digest(case),
        "c03_reuse" => c03_reuse(case),
        "c03_masking" => c03_masking(case),
        "adss_scenario" => adss_scenario(case),
        "c08_decode" => c08_decode(case),
        _ => Err(format!("unknown case kind {:?}", kind)),
    }
}

/// C09: a decoder / consumer of foreign bytes must not panic.
fn panic_decode(case: &Value) -> Result<Option<String>, String> {
    let f = case["fn"].as_str().ok_or("fn")?.to_string();
    let b = get_hex(case, "bytes");
    let r = match f.as_str() {
        "adss::load_bytes" => catch(|| {
            let _ = adss::load_bytes(&b);
            let _ = adss::load_u32(&b);
            let _ = adss::AccessStructure::from_bytes(&b);
        }),
        "star_sharks::Share::try_from" => catch(|| {
            let _ = star_sharks::Share::try_from(&b[..]);
        }),
        "sta_rs::Share::from_bytes" => catch(|| {
            let _ = sta_rs::Share::from_bytes(&b);
            let _ = adss::Share::from_bytes(&b);
        }),
        "sta_rs::Message::from_bytes" => catch(|| {
            let _ = sta_rs::Message::from_bytes(&b);
        }),
        _ => return Err(format!("unknown fn {}", f)),
    };
    Ok(r.err().map(|m| format!("{} panicked on {} bytes: {}", f, b.len(), m)))
}

// ---------------------------------------------------------------------------
// C07: field operations on raw (Montgomery) limbs
// ---------------------------------------------------------------------------
use ff::{Field, PrimeField};
use star_sharks::{Fp, FpRepr};

fn limbs_of(v: &Value) -> Result<[u64; 3], String> {
    let a = v.as_array().ok_or("limbs")?;
    let mut o = [0u64; 3];
    for i in 0..3 {
        o[i] = a[i].as_str().ok_or("limb str")?.parse::<u64>().map_err(|e| e.to_string())?;
    }
    Ok(o)
}
fn fp_raw(l: [u64; 3]) -> Fp {
    // Fp is a tuple struct around [u64; 3] (checked by the repository's element_length test)
    unsafe { core::mem::transmute::<[u64; 3], Fp>(l) }
}
fn raw_of(f: Fp) -> [u64; 3] {
    let v: Vec<u64> = f.into();
    [v[0], v[1], v[2]]
}

/// evaluates one operation of the real field type; result as a JSON value
pub fn fp_apply(op: &str, case: &Value) -> Result<Value, String> {
    let get = |k: &str| -> Result<Fp, String> { Ok(fp_raw(limbs_of(&case[k])?)) };
    let out_l = |f: Fp| -> Value {
        let l = raw_of(f);
        serde_json::json!([l[0].to_string(), l[1].to_string(), l[2].to_string()])
    };
    Ok(match op {
        "add" => out_l(get("a")? + get("b")?),
        "sub" => out_l(get("a")? - get("b")?),
        "mul" => out_l(get("a")? * get("b")?),
        "neg" => out_l(-get("a")?),
        "double" => out_l(get("a")?.double()),
        "square" => out_l(get("a")?.square()),
        "invert" => {
            let r = get("a")?.invert();
            if bool::from(r.is_some()) { out_l(r.unwrap()) } else { Value::Null }
        }
        "sqrt" => {
            let r = get("a")?.sqrt();
            if bool::from(r.is_some()) { out_l(r.unwrap()) } else { Value::Null }
        }
        "pow" => {
            let e = case["e"].as_str().ok_or("e")?.parse::<u64>().map_err(|e| e.to_string())?;
            out_l(get("a")?.pow([e]))
        }
        "from_u64" => {
            let v = case["v"].as_str().ok_or("v")?.parse::<u64>().map_err(|e| e.to_string())?;
            out_l(Fp::from(v))
        }
        "to_repr" => {
            let r = get("a")?.to_repr();
            Value::String(r.as_ref().iter().map(|b| format!("{:02x}", b)).collect())
        }
        "from_repr" => {
            let b = get_hex(case, "bytes");
            let mut a = [0u8; 24];
            a.copy_from_slice(&b);
            let r = Fp::from_repr(FpRepr(a));
            if bool::from(r.is_some()) { out_l(r.unwrap()) } else { Value::Null }
        }
        "eq" => Value::Bool(get("a")? == get("b")?),
        "cmp" => Value::String(format!("{:?}", get("a")?.cmp(&get("b")?))),
        "is_odd" => Value::Bool(bool::from(get("a")?.is_odd())),
        "const" => {
            let n = case["name"].as_str().ok_or("name")?;
            match n {
                "ZERO" => out_l(Fp::ZERO),
                "ONE" => out_l(Fp::ONE),
                "TWO_INV" => out_l(Fp::TWO_INV),
                "MULTIPLICATIVE_GENERATOR" => out_l(Fp::MULTIPLICATIVE_GENERATOR),
                "ROOT_OF_UNITY" => out_l(Fp::ROOT_OF_UNITY),
                "ROOT_OF_UNITY_INV" => out_l(Fp::ROOT_OF_UNITY_INV),
                "DELTA" => out_l(Fp::DELTA),
                "NUM_BITS" => Value::String(Fp::NUM_BITS.to_string()),
                "CAPACITY" => Value::String(Fp::CAPACITY.to_string()),
                "S" => Value::String(Fp::S.to_string()),
                "MODULUS" => Value::String(Fp::MODULUS.to_string()),
                _ => return Err(format!("const {}", n)),
            }
        }
        _ => return Err(format!("unknown op {}", op)),
    })
}

/// one operation with the value expected by the checker's independent big-integer model
fn fp_op(case: &Value) -> Result<Option<String>, String> {
    let op = case["op"].as_str().ok_or("op")?.to_string();
    let c2 = case.clone();
    let got = catch(move || fp_apply(&op, &c2));
    match got {
        Err(p) => Ok(Some(format!("{} panicked: {}", case["op"], p))),
        Ok(Err(e)) => Err(e),
        Ok(Ok(v)) => {
            if v == case["expect"] {
                Ok(None)
            } else {
                Ok(Some(format!("{} on {}: real code returns {} but big-integer model mod 2^128+12451 gives {}",
                    case["op"], case, v, case["expect"])))
            }
        }
    }
}

/// batch evaluation (translator validation): prints one JSON array of results
fn fp_eval(case: &Value) -> Result<Option<String>, String> {
    let mut out = Vec::new();
    for c in case["cases"].as_array().ok_or("cases")? {
        let op = c["op"].as_str().ok_or("op")?.to_string();
        let c2 = c.clone();
        let r = catch(move || fp_apply(&op, &c2));
        out.push(match r {
            Ok(Ok(v)) => v,
            Ok(Err(e)) => return Err(e),
            Err(p) => Value::String(format!("PANIC:{}", p)),
        });
    }
    println!("FP_EVAL {}", Value::Array(out));
    Ok(None)
}

/// published constants have the meaning the field interface assigns to them
/// (evaluated with the real field operations, which C07 checks separately)
fn fp_const(_case: &Value) -> Result<Option<String>, String> {
    let r = catch(|| {
        let mut bad: Vec<String> = Vec::new();
        let one = Fp::ONE;
        let g = Fp::MULTIPLICATIVE_GENERATOR;
        // (p-1)/2 = 2^127 + 6225, little-endian u64 limbs
        let q: [u64; 3] = [6225, 1u64 << 63, 0];
        if Fp::TWO_INV.double() != one { bad.push("2*TWO_INV != 1".into()); }
        if g.pow(q) != -one { bad.push("MULTIPLICATIVE_GENERATOR^((p-1)/2) != -1: not a generator / is a quadratic residue".into()); }
        if Fp::ROOT_OF_UNITY != g.pow(q) || Fp::ROOT_OF_UNITY != -one { bad.push("ROOT_OF_UNITY is not the primitive 2^S-th root g^t = -1".into()); }
        if Fp::ROOT_OF_UNITY * Fp::ROOT_OF_UNITY_INV != one { bad.push("ROOT_OF_UNITY*ROOT_OF_UNITY_INV != 1".into()); }
        if Fp::DELTA != g.square() { bad.push("DELTA != g^(2^S)".into()); }
        if Fp::NUM_BITS != 129 || Fp::CAPACITY != 128 || Fp::S != 1 { bad.push("NUM_BITS/CAPACITY/S".into()); }
        if Fp::MODULUS != "0x1000000000000000000000000000030a3" { bad.push("MODULUS string".into()); }
        if bool::from(Fp::ZERO.invert().is_some()) || !Fp::ZERO.is_zero_vartime() { bad.push("ZERO".into()); }
        bad
    });
    match r {
        Err(p) => Ok(Some(format!("constant evaluation panicked: {}", p))),
        Ok(bad) if bad.is_empty() => Ok(None),
        Ok(bad) => Ok(Some(format!("field constants: {}", bad.join("; ")))),
    }
}

// ---------------------------------------------------------------------------
// C06 / C02: Sharks::recover on small concrete share lists
// ---------------------------------------------------------------------------
fn shares_of(c: &Value) -> Result<Vec<star_sharks::Share>, String> {
    let mut v = Vec::new();
    for s in c["shares"].as_array().ok_or("shares")? {
        // x: small integer, or "hex:<48 hex digits>" = canonical 24-byte little-endian encoding
        let x = if let Some(h) = s["x"].as_str() {
            let b: Vec<u8> = (0..24).map(|i| u8::from_str_radix(&h[4 + 2 * i..6 + 2 * i], 16).unwrap_or(0)).collect();
            let mut a = [0u8; 24];
            a.copy_from_slice(&b);
            Option::<Fp>::from(Fp::from_repr(FpRepr(a))).ok_or("x not canonical")?
        } else {
            Fp::from(s["x"].as_u64().ok_or("x")?)
        };
        let y: Vec<Fp> = s["y"].as_array().ok_or("y")?.iter().map(|e| Fp::from(e.as_u64().unwrap_or(0))).collect();
        v.push(star_sharks::Share { x, y });
    }
    Ok(v)
}
fn recover_one(c: &Value) -> Result<Value, String> {
    let t = c["t"].as_u64().ok_or("t")? as u32;
    let v = shares_of(c)?;
    let r = catch(move || {
        let sh = star_sharks::Sharks(t);
        sh.recover(&v).map_err(|e| e.to_string())
    });
    Ok(match r {
        Err(p) => Value::String(format!("PANIC:{}", p)),
        Ok(Err(_)) => Value::String("Err".into()),
        Ok(Ok(b)) => Value::String(b.iter().map(|x| format!("{:02x}", x)).collect()),
    })
}
fn recover_eval(case: &Value) -> Result<Option<String>, String> {
    let mut out = Vec::new();
    for c in case["cases"].as_array().ok_or("cases")? {
        out.push(recover_one(c)?);
    }
    println!("RECOVER_EVAL {}", Value::Array(out));
    Ok(None)
}
fn recover_case(case: &Value) -> Result<Option<String>, String> {
    let got = recover_one(case)?;
    if got == case["expect"] {
        Ok(None)
    } else {
        Ok(Some(format!("Sharks({}).recover on {} returns {} but textbook Shamir (first t distinct points, Lagrange at 0 mod 2^128+12451) gives {}",
            case["t"], case["shares"], got, case["expect"])))
    }
}

// ---------------------------------------------------------------------------
// C04 / C03 / C05 / C16 / C08: scenario replays on the real crates (real Keccak, real RNG)
// ---------------------------------------------------------------------------
fn local_rnd(m: &[u8], e: &[u8], t: u32) -> [u8; 32] {
    let mg = sta_rs::MessageGenerator::new(sta_rs::SingleMeasurement::new(m), t, e);
    let mut r = [0u8; 32];
    mg.sample_local_randomness(&mut r);
    r
}
fn u32_of(c: &Value, k: &str) -> u32 {
    c[k].as_u64().unwrap_or(0) as u32
}

/// two triples: randomness, tag and key are equal iff the triples are equal
pub fn c04_triples(case: &Value) -> Result<Option<String>, String> {
    let (m1, e1, t1) = (get_hex(case, "m1"), get_hex(case, "e1"), u32_of(case, "t1"));
    let (m2, e2, t2) = (get_hex(case, "m2"), get_hex(case, "e2"), u32_of(case, "t2"));
    let same = m1 == m2 && e1 == e2 && t1 == t2;
    let r = catch(move || {
        let mut bad: Vec<String> = Vec::new();
        let r1 = local_rnd(&m1, &e1, t1);
        let r2 = local_rnd(&m2, &e2, t2);
        if (r1 == r2) != same { bad.push(format!("randomness equal={} but triples equal={}", r1 == r2, same)); }
        if t1 >= 1 && t2 >= 1 && t1 <= 8 && t2 <= 8 {
            let a = sta_rs::MessageGenerator::new(sta_rs::SingleMeasurement::new(&m1), t1, &e1).share_with_local_randomness();
            let b = sta_rs::MessageGenerator::new(sta_rs::SingleMeasurement::new(&m2), t2, &e2).share_with_local_randomness();
            if let (Ok(a), Ok(b)) = (a, b) {
                if (a.tag == b.tag) != same { bad.push(format!("tags equal={} but triples equal={}", a.tag == b.tag, same)); }
                if (a.key == b.key) != same { bad.push(format!("keys equal={} but triples equal={}", a.key == b.key, same)); }
                if same && a.share.to_bytes()[8..32] == b.share.to_bytes()[8..32] { bad.push("two independent shares have the same point".into()); }
            }
        }
        bad
    });
    match r {
        Err(p) => Ok(Some(format!("panicked: {}", p))),
        Ok(b) if b.is_empty() => Ok(None),
        Ok(b) => Ok(Some(b.join("; "))),
    }
}

pub fn c04_ske(case: &Value) -> Result<Option<String>, String> {
    let (r1, e1, r2, e2) = (get_hex(case, "r1"), get_hex(case, "e1"), get_hex(case, "r2"), get_hex(case, "e2"));
    let same = r1 == r2 && e1 == e2;
    let mut k1 = [0u8; 16];
    let mut k2 = [0u8; 16];
    sta_rs::derive_ske_key(&r1, &e1, &mut k1);
    sta_rs::derive_ske_key(&r2, &e2, &mut k2);
    if (k1 == k2) != same {
        return Ok(Some(format!("derive_ske_key: keys equal={} but (r, epoch) equal={}", k1 == k2, same)));
    }
    Ok(None)
}

pub fn c04_digest(case: &Value) -> Result<Option<String>, String> {
    let (k1, k2) = (get_hex(case, "k1"), get_hex(case, "k2"));
    let (a1, a2) = (u32_of(case, "a1") as u8, u32_of(case, "a2") as u8);
    let same = k1 == k2 && a1 == a2;
    let mut o1 = [0u8; 32];
    let mut o2 = [0u8; 32];
    sta_rs::strobe_digest(&k1, &[&[a1]], "star_derive_randoms", &mut o1);
    sta_rs::strobe_digest(&k2, &[&[a2]], "star_derive_randoms", &mut o2);
    if (o1 == o2) != same {
        return Ok(Some(format!("strobe_digest: outputs equal={} but inputs equal={}", o1 == o2, same)));
    }
    Ok(None)
}

/// two reports of one measurement with different associated data: c1 ^ c2 == p1 ^ p2 ?
pub fn c03_reuse(case: &Value) -> Result<Option<String>, String> {
    let (m, e, t) = (get_hex(case, "m"), get_hex(case, "e"), u32_of(case, "t").max(1));
    let (a1, a2) = (get_hex(case, "aux1"), get_hex(case, "aux2"));
    if a1 == a2 { return Ok(None); }
    let mg = sta_rs::MessageGenerator::new(sta_rs::SingleMeasurement::new(&m), t, &e);
    let mut rnd = [0u8; 32];
    mg.sample_local_randomness(&mut rnd);
    let m1 = sta_rs::Message::generate(&mg, &rnd, Some(sta_rs::AssociatedData::new(&a1))).map_err(|e| e.to_string())?;
    let m2 = sta_rs::Message::generate(&mg, &rnd, Some(sta_rs::AssociatedData::new(&a2))).map_err(|e| e.to_string())?;
    let (c1, c2) = (m1.ciphertext.to_bytes(), m2.ciphertext.to_bytes());
    let mut p1 = Vec::new();
    sta_rs::store_bytes(&m, &mut p1);
    sta_rs::store_bytes(&a1, &mut p1);
    let mut p2 = Vec::new();
    sta_rs::store_bytes(&m, &mut p2);
    sta_rs::store_bytes(&a2, &mut p2);
    let n = c1.len().min(c2.len());
    // positions where the plaintexts differ
    let diff: Vec<usize> = (0..n).filter(|&i| p1[i] != p2[i]).collect();
    if diff.is_empty() { return Ok(None); }
    let from = case["from_offset"].as_u64().unwrap_or(0) as usize;
    let diff2: Vec<usize> = diff.iter().cloned().filter(|&i| i >= from).collect();
    if !diff2.is_empty() && diff2.iter().all(|&i| c1[i] ^ c2[i] == p1[i] ^ p2[i]) {
        return Ok(Some(format!("keystream reuse: c1^c2 == p1^p2 on all {} differing payload bytes from offset {} (two reports of one measurement, aux {:?} vs {:?})", diff2.len(), from, a1, a2)));
    }
    Ok(None)
}

/// payload bytes must not appear verbatim in the ciphertext; decrypt inverts encrypt
pub fn c03_masking(case: &Value) -> Result<Option<String>, String> {
    let (key, data) = (get_hex(case, "key"), get_hex(case, "data"));
    let c = sta_rs::Ciphertext::new(&key, &data, "star_encrypt");
    let cb = c.to_bytes();
    if cb.len() != data.len() { return Ok(Some("ciphertext length differs from payload length".into())); }
    if c.decrypt(&key, "star_encrypt") != data { return Ok(Some("decrypt(encrypt(x)) != x".into())); }
    let w = 12.min(data.len());
    if w >= 8 {
        for o in 0..=(data.len() - w) {
            if cb[o..o + w] == data[o..o + w] {
                return Ok(Some(format!("{} payload bytes appear in the clear at ciphertext offset {}", w, o)));
            }
        }
    }
    Ok(None)
}

/// honest sharing; optional alteration of the encoded first share; recovery must return an
/// error or exactly the message (and an error if `must_reject`)
pub fn adss_scenario(case: &Value) -> Result<Option<String>, String> {
    let (m, r, t) = (get_hex(case, "m"), get_hex(case, "r"), u32_of(case, "t"));
    let n = case["n_shares"].as_u64().unwrap_or(t.max(1) as u64) as usize;
    let must_reject = case["must_reject"].as_bool().unwrap_or(false);
    let expect_ok = case["expect_ok"].as_bool().unwrap_or(false);
    let custom = case["custom_transcript"].as_bool().unwrap_or(false);
    let c2 = case.clone();
    let res = catch(move || -> Result<Option<String>, String> {
        let mut shares = Vec::new();
        for _ in 0..n {
            let tr = if custom { Some(strobe_rs::Strobe::new(b"other", strobe_rs::SecParam::B128)) } else { None };
            shares.push(adss::Commune::new(t, m.clone(), r.clone(), tr).share().map_err(|e| e.to_string())?);
        }
        // wire round trip
        for s in &shares {
            let back = adss::Share::from_bytes(&s.to_bytes());
            if back.as_ref() != Some(s) { return Ok(Some("decode(encode(share)) != share".into())); }
        }
        if let Some(lo) = c2["fault_lo"].as_u64() {
            let hi = c2["fault_hi"].as_u64().unwrap_or(lo) as usize;
            let nb = get_hex(&c2, "fault_bytes");
            let mut e = shares[0].to_bytes();
            let mut changed = false;
            for i in lo as usize..hi.min(e.len()) {
                let v = nb.get(i - lo as usize).cloned().unwrap_or(0);
                if v != e[i] { changed = true; }
                e[i] = v;
            }
            if !changed { e[lo as usize] ^= 1; }
            match adss::Share::from_bytes(&e) {
                None => return Ok(None),
                Some(f) => shares[0] = f,
            }
        }
        match adss::recover(&shares) {
            Err(_) => {
                if expect_ok { Ok(Some(format!("recovery of {} honest shares (t={}) failed", n, t))) } else { Ok(None) }
            }
            Ok(c) => {
                if custom { return Ok(Some("shares made under a different transcript were accepted".into())); }
                if t == 0 { return Ok(Some("threshold 0 recovered".into())); }
                if must_reject { return Ok(Some("an altered share field was accepted".into())); }
                if c.get_message() != m { return Ok(Some("recovery returned a different message".into())); }
                Ok(None)
            }
        }
    });
    match res {
        Err(p) => Ok(Some(format!("panicked: {}", p))),
        Ok(r) => r,
    }
}

/// decoder vs the verdict of the reference parser (computed by the checker)
pub fn c08_decode(case: &Value) -> Result<Option<String>, String> {
    let f = case["fn"].as_str().ok_or("fn")?.to_string();
    let b = get_hex(case, "bytes");
    let want_accept = case["expect_accept"].as_bool().ok_or("expect_accept")?;
    let want_canon = case["expect_canon"].as_str().map(|s| s.to_string());
    let r = catch(move || -> Option<Vec<u8>> {
        match f.as_str() {
            "sharks" => star_sharks::Share::try_from(&b[..]).ok().map(|s| Vec::from(&s)),
            "share" => sta_rs::Share::from_bytes(&b).map(|s| s.to_bytes()),
            "message" => sta_rs::Message::from_bytes(&b).map(|s| s.to_bytes()),
            "load_bytes" => adss::load_bytes(&b).map(|c| c.to_vec()),
            _ => None,
        }
    });
    match r {
        Err(p) => Ok(Some(format!("decoder panicked: {}", p))),
        Ok(got) => {
            if got.is_some() != want_accept {
                return Ok(Some(format!("decoder {} the input but the layout reference {} it", if got.is_some() { "accepts" } else { "rejects" }, if want_accept { "accepts" } else { "rejects" })));
            }
            if let (Some(g), Some(w)) = (got, want_canon) {
                let gh: String = g.iter().map(|x| format!("{:02x}", x)).collect();
                if gh != w { return Ok(Some(format!("re-encoding {} differs from the canonical form {}", gh, w))); }
            }
            Ok(None)
        }
    }
}
