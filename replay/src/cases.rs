//! Replay cases, one function per counterexample family.
//! Each returns Ok(None) = property holds here, Ok(Some(msg)) = violation reproduced.
use crate::{catch, get_hex};
use serde_json::Value;
use std::convert::TryFrom;

pub fn dispatch(kind: &str, case: &Value) -> Result<Option<String>, String> {
    match kind {
        "panic_decode" => panic_decode(case),
        _ => Err(format!("unknown case kind {:?}", kind)),
    }
}

/// C09: a decoder / consumer of foreign bytes must not panic.
fn panic_decode(case: &Value) -> Result<Option<String>, String> {
    let f = case["fn"].as_str().ok_or("fn")?.to_string();
    let b = get_hex(case, "bytes");
    let r = match f.as_str() {
        "adss::load_bytes" => catch(|| {
            let _ = adss::load_bytes(&b);
            let _ = adss::load_u32(&b);
            let _ = adss::AccessStructure::from_bytes(&b);
        }),
        "star_sharks::Share::try_from" => catch(|| {
            let _ = star_sharks::Share::try_from(&b[..]);
        }),
        "sta_rs::Share::from_bytes" => catch(|| {
            let _ = sta_rs::Share::from_bytes(&b);
            let _ = adss::Share::from_bytes(&b);
        }),
        "sta_rs::Message::from_bytes" => catch(|| {
            let _ = sta_rs::Message::from_bytes(&b);
        }),
        _ => return Err(format!("unknown fn {}", f)),
    };
    Ok(r.err().map(|m| format!("{} panicked on {} bytes: {}", f, b.len(), m)))
}
