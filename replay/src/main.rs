//! Native replay of solver counterexamples against the real brave/sta-rs crates.
//!
//! usage: verif-replay <case.json>
//! exit 0: the property holds on this concrete case (counterexample NOT reproduced)
//! exit 1: violation reproduced on the real code (prints `REPRODUCED: ...`)
//! exit 3: bad case file
//!
//! The case file is what /verif/run.py derives from a Kani / SMT model; it is also the
//! `replay=` artefact of a VIOLATION line, so a violation can be re-run by hand:
//!   cd /verif/replay && cargo run --offline [--release] -- ../replays/<file>.json
use serde_json::Value;
use std::convert::TryFrom;
use std::panic;

mod cases;

fn hex(v: &Value) -> Vec<u8> {
    let s = v.as_str().expect("hex string");
    (0..s.len() / 2)
        .map(|i| u8::from_str_radix(&s[2 * i..2 * i + 2], 16).expect("hex"))
        .collect()
}

pub fn to_hex(b: &[u8]) -> String {
    b.iter().map(|x| format!("{:02x}", x)).collect()
}

fn main() {
    let path = std::env::args().nth(1).expect("case file");
    let txt = std::fs::read_to_string(&path).expect("read case file");
    let case: Value = serde_json::from_str(&txt).expect("json");
    let kind = case["kind"].as_str().unwrap_or("").to_string();
    // silence the default panic message of caught panics, keep it in the verdict
    panic::set_hook(Box::new(|_| {}));
    let verdict: Result<Option<String>, String> = cases::dispatch(&kind, &case);
    match verdict {
        Ok(None) => {
            println!("NOT-REPRODUCED: property holds on this case ({})", kind);
            std::process::exit(0);
        }
        Ok(Some(msg)) => {
            println!("REPRODUCED: {}", msg);
            std::process::exit(1);
        }
        Err(e) => {
            println!("BAD-CASE: {}", e);
            std::process::exit(3);
        }
    }
}

pub fn catch<F: FnOnce() -> R + panic::UnwindSafe, R>(f: F) -> Result<R, String> {
    panic::catch_unwind(f).map_err(|e| {
        if let Some(s) = e.downcast_ref::<&str>() {
            s.to_string()
        } else if let Some(s) = e.downcast_ref::<String>() {
            s.clone()
        } else {
            "panic".to_string()
        }
    })
}

pub fn get_hex(case: &Value, k: &str) -> Vec<u8> {
    hex(&case[k])
}

#[allow(dead_code)]
pub fn try_from_share(b: &[u8]) -> Option<star_sharks::Share> {
    star_sharks::Share::try_from(b).ok()
}
