// In-crate Kani harnesses for ppoprf::ggm (included by the cfg(kani) hook module).
// Free-algebra PRG: a child seed is the parent seed shifted by one byte with a marker of
// the branch bit appended, so a leaf value encodes (24 bytes of the root, the 8-step path):
// "evaluates to the same value" and "distinct inputs have distinct values" are decided
// exactly, for every root seed, without any collision caveat.

static mut SETUP_N: u8 = 77;

fn sample_secret_stub() -> Vec<u8> {
  let a: [u8; 32] = kani::any();
  a.to_vec()
}
fn prg_setup_stub() -> GGMPseudorandomGenerator {
  // the two generators are told apart by their key: first call -> bit 0, second -> bit 1
  let n = unsafe { SETUP_N };
  unsafe { SETUP_N = n + 1 };
  let mut key = [0u8; 32];
  key[0] = n;
  GGMPseudorandomGenerator { key }
}
fn prg_eval_stub(this: &GGMPseudorandomGenerator, input: &[u8], output: &mut [u8]) {
  assert!(input.len() == 32 && output.len() == 32);
  let mut tmp = [0u8; 32];
  tmp[0] = input[1]; tmp[1] = input[2]; tmp[2] = input[3]; tmp[3] = input[4];
  tmp[4] = input[5]; tmp[5] = input[6]; tmp[6] = input[7]; tmp[7] = input[8];
  tmp[8] = input[9]; tmp[9] = input[10]; tmp[10] = input[11]; tmp[11] = input[12];
  tmp[12] = input[13]; tmp[13] = input[14]; tmp[14] = input[15]; tmp[15] = input[16];
  tmp[16] = input[17]; tmp[17] = input[18]; tmp[18] = input[19]; tmp[19] = input[20];
  tmp[20] = input[21]; tmp[21] = input[22]; tmp[22] = input[23]; tmp[23] = input[24];
  tmp[24] = input[25]; tmp[25] = input[26]; tmp[26] = input[27]; tmp[27] = input[28];
  tmp[28] = input[29]; tmp[29] = input[30]; tmp[30] = input[31];
  // marker: 1 for the first generator (bit 0), 2 for the second (bit 1)
  tmp[31] = 1 + (this.key[0] - 0);
  output.copy_from_slice(&tmp);
}

macro_rules! ggm_stubs {
  ($(#[$m:meta])* fn $name:ident() $body:block) => {
    #[kani::proof]
    #[kani::stub(sample_secret, sample_secret_stub)]
    #[kani::stub(GGMPseudorandomGenerator::setup, prg_setup_stub)]
    #[kani::stub(GGMPseudorandomGenerator::eval, prg_eval_stub)]
    $(#[$m])*
    fn $name() $body
  };
}

fn setup() -> GGM {
  unsafe { SETUP_N = 0 };
  GGM::setup()
}
fn w(a: &[u8; 32], o: usize) -> u64 {
  u64::from_le_bytes([a[o], a[o + 1], a[o + 2], a[o + 3], a[o + 4], a[o + 5], a[o + 6], a[o + 7]])
}
fn eq32(a: &[u8; 32], b: &[u8; 32]) -> bool {
  w(a, 0) == w(b, 0) && w(a, 8) == w(b, 8) && w(a, 16) == w(b, 16) && w(a, 24) == w(b, 24)
}

// one puncture: the punctured input is gone, every other input keeps its value
ggm_stubs! { #[kani::unwind(10)] fn ggm_puncture_one() {
  let mut g = setup();
  let p: u8 = kani::any();
  let y: u8 = kani::any();
  let mut before = [0u8; 32];
  assert!(g.eval(&[y], &mut before).is_ok(), "fresh key evaluates everywhere");
  assert!(g.puncture(&[p]).is_ok(), "first puncture of an input succeeds");
  let mut after = [0u8; 32];
  let r = g.eval(&[y], &mut after);
  if y == p {
    assert!(r.is_err(), "punctured input can never be evaluated again");
  } else {
    assert!(r.is_ok(), "every other input is still covered");
    assert!(eq32(&before, &after), "and keeps exactly the value it had before");
  }
  assert!(g.puncture(&[p]).is_err(), "punctured input can never be punctured again");
  kani::cover!(y == p, "probe is the punctured input");
  kani::cover!(y != p, "probe is another input");
  core::mem::forget(g);
} }
